"""Scripted network stack for the harness controller.

The stack records every request it is given and delivers link-layer responses according to a *plan*:
an ordered list of response descriptions that the check appends to when it issues an SDK call (it
knows role, type and number).  Responses are delivered when the program waits (auto mode) or when
the check says so (C12 owns the schedule).
"""
from __future__ import annotations

from typing import Any, Dict, List, Optional

import numpy as np

from netqasm.backend.network_stack import BaseNetworkStack
from netqasm.qlink_compat import LinkLayerOKTypeK, LinkLayerOKTypeM, ReturnType

from . import quantum as qm
from .sim import WouldBlock


class ScriptedNetworkStack(BaseNetworkStack):
    def __init__(self, executor):
        self.ex = executor
        self.requests: List[Any] = []
        self.sockets: List[Any] = []
        self.plan: List[Dict[str, Any]] = []  # pending response descriptions
        self.delivered: List[Any] = []
        self.partners: Dict[int, Any] = {}  # physical id -> partner label
        self.pair_log: List[Dict[str, Any]] = []
        self.n_partner = 0
        self.n_create_expected = 0
        self.purpose_offset = 0
        executor.wait_hook = self.on_wait

    # ---- BaseNetworkStack
    def put(self, request) -> None:
        self.requests.append(request)

    def setup_epr_socket(self, epr_socket_id, remote_node_id, remote_epr_socket_id, timeout=1.0):
        self.sockets.append((epr_socket_id, remote_node_id, remote_epr_socket_id))
        return None

    def get_purpose_id(self, remote_node_id: int, epr_socket_id: int) -> int:
        # the purpose id is the network stack's business; a non-zero offset keeps it distinct from the socket id
        return epr_socket_id + self.purpose_offset

    # ---- plan handling
    def expect(self, role: str, tp: str, number: int, fields: Optional[List[Dict[str, Any]]] = None, remote_node_id=1, purpose_id=0) -> None:
        """Announce `number` responses for a request. role: "create"|"recv"; tp: "K"|"M"."""
        req_no = None
        if role == "create":
            req_no = self.n_create_expected
            self.n_create_expected += 1
        for i in range(number):
            f = dict(fields[i]) if fields and i < len(fields) else {}
            f.setdefault("remote_node_id", remote_node_id)
            f.setdefault("purpose_id", purpose_id)
            self.plan.append({"role": role, "tp": tp, "pair": i, "fields": f, "req_no": req_no})

    def deliver_eagerly(self) -> None:
        """a fast link layer: deliver every planned response as soon as it can exist (creator side: once the request
        was put; receiver side: at once, possibly before recv_epr has executed)"""
        while self.plan:
            item = self.plan[0]
            if item["role"] == "create" and len(self.requests) <= item["req_no"]:
                return
            self.deliver(self.plan.pop(0))

    def on_wait(self) -> None:
        if not self.plan:
            raise WouldBlock("program waits for entanglement but no response is outstanding")
        self.deliver(self.plan.pop(0))

    def build_response(self, item):
        f = item["fields"]
        direction = 0 if item["role"] == "create" else 1
        if item["tp"] == "K":
            phys = f.get("logical_qubit_id")
            if phys is None:
                phys = self.ex._get_unused_physical_qubit()
            bell = f.get("bell_state", 0)
            bell_idx = bell.value if hasattr(bell, "value") else bell
            sv = getattr(self.ex, "sv", None)
            if sv is not None and phys not in sv.labels:
                partner = ("remote", self.n_partner)
                self.n_partner += 1
                sv.add_joint([phys, partner], qm.BELL_VECS[bell_idx])
                self.partners[phys] = partner
                self.pair_log.append({"phys": phys, "partner": partner, "bell": bell_idx, "pair": item["pair"]})
            if f.get("as_qlink10"):
                # the same response as a qlink-interface 1.0 object, naming the Bell state with that package's own enum
                import qlink_interface as ql
                from netqasm.qlink_compat import BellState as NQBell

                return ql.ResCreateAndKeep(
                    create_id=f.get("create_id", 0), directionality_flag=f.get("directionality_flag", direction), sequence_number=f.get("sequence_number", 0),
                    purpose_id=f["purpose_id"], remote_node_id=f["remote_node_id"], goodness=f.get("goodness", 0),
                    # (a plain integer in a 1.0 object is passed on as it is, i.e. read with this package's numbering: qlink_compat says so)
                    bell_state=bell_idx if f.get("qlink10_int") else ql.BellState[NQBell(bell_idx).name], logical_qubit_id=phys, time_of_goodness=f.get("goodness_time", 0),
                )
            return LinkLayerOKTypeK(
                type=f.get("type", ReturnType.OK_K),
                create_id=f.get("create_id", 0),
                logical_qubit_id=phys,
                directionality_flag=f.get("directionality_flag", direction),
                sequence_number=f.get("sequence_number", 0),
                purpose_id=f["purpose_id"],
                remote_node_id=f["remote_node_id"],
                goodness=f.get("goodness", 0),
                goodness_time=f.get("goodness_time", 0),
                bell_state=bell,
            )
        if f.get("as_qlink10"):
            import qlink_interface as ql
            from netqasm.qlink_compat import BellState as NQBell

            b_ = f.get("bell_state", 0)
            b_ = b_.value if hasattr(b_, "value") else b_
            return ql.ResMeasureDirectly(
                create_id=f.get("create_id", 0), directionality_flag=f.get("directionality_flag", direction), sequence_number=f.get("sequence_number", 0),
                purpose_id=f["purpose_id"], remote_node_id=f["remote_node_id"], goodness=f.get("goodness", 0),
                bell_state=b_ if f.get("qlink10_int") else ql.BellState[NQBell(b_).name], measurement_outcome=f.get("measurement_outcome", 0),
                measurement_basis=ql.MeasurementBasis(f.get("measurement_basis", 0)),
            )
        return LinkLayerOKTypeM(
            type=f.get("type", ReturnType.OK_M),
            create_id=f.get("create_id", 0),
            measurement_outcome=f.get("measurement_outcome", 0),
            measurement_basis=f.get("measurement_basis", 0),
            directionality_flag=f.get("directionality_flag", direction),
            sequence_number=f.get("sequence_number", 0),
            purpose_id=f["purpose_id"],
            remote_node_id=f["remote_node_id"],
            goodness=f.get("goodness", 0),
            bell_state=f.get("bell_state", 0),
        )

    def deliver(self, item) -> None:
        resp = self.build_response(item)
        self.delivered.append(resp)
        self.ex._handle_epr_response(resp)
