"""Shared runner: seed/tier plumbing, sharding, statistics, evidence, findings, exit codes.

Exit codes: 0 = held on everything explored (possibly with KNOWN-FINDING lines),
1 = VIOLATION (replay file written), 2 = harness error (never dressed up as a violation).
"""
from __future__ import annotations

import argparse
import hashlib
import importlib
import json
import multiprocessing
import os
import signal
import sys
import time
import traceback
from collections import Counter
from typing import Any, Callable, Dict, List, Optional

VERIF = os.path.dirname(os.path.dirname(os.path.abspath(__file__)))
REPO = os.environ.get("NETQASM_REPO", "/repo")


def _prepare_imports() -> None:
    if REPO not in sys.path[:1]:
        sys.path.insert(0, REPO)
    if VERIF not in sys.path:
        sys.path.insert(1, VERIF)
    deps = os.path.join(VERIF, ".deps")
    if os.path.isdir(deps) and deps not in sys.path:
        sys.path.append(deps)
    import logging

    logging.disable(logging.CRITICAL)
    import netqasm  # noqa

    if not os.path.abspath(netqasm.__file__).startswith(os.path.abspath(REPO) + os.sep):
        print(f"HARNESS-ERROR: netqasm imported from {netqasm.__file__}, not {REPO}")
        sys.exit(2)


class Failure(Exception):
    """Raised by an oracle when a property is violated on a generated case."""

    def __init__(self, signature: str, case: Any, message: str):
        super().__init__(message)
        self.signature = signature
        self.case = case
        self.message = message

    @property
    def size(self) -> int:
        return len(json.dumps(self.case, sort_keys=True, default=str))

    def to_json(self) -> Dict[str, Any]:
        return {"signature": self.signature, "case": self.case, "message": self.message}


class HarnessError(Exception):
    pass


def failure_from_exception(e: BaseException, case: Any) -> Optional["Failure"]:
    """An exception that escapes from the code under test on a generated (in-domain) input is a violation, not a
    harness error.  Returns None when the innermost frame is not inside the repository (then it is the harness's fault)."""
    tb = traceback.extract_tb(e.__traceback__)
    if not tb:
        return None
    repo_prefix = os.path.abspath(REPO) + os.sep
    last = tb[-1]
    if not os.path.abspath(last.filename).startswith(repo_prefix):
        return None
    if type(e).__name__ in ("OutOfDomain", "OutOfDomainProgram", "StepBound", "WouldBlock"):
        return None
    try:
        json.dumps(case, default=str)
        c = case
    except Exception:
        c = repr(case)
    where = f"{os.path.basename(last.filename)}:{last.name}"
    msg = (str(e).splitlines() or [""])[0][:300]
    return Failure(f"unexpected-exception:{type(e).__name__}:{where}", {"raw_input": c} if not isinstance(c, dict) else c, f"the code under test raised {type(e).__name__}: {msg} (in {where}) on an in-domain generated input")


def digest(obj: Any) -> bytes:
    if isinstance(obj, bytes):
        b = obj
    else:
        b = json.dumps(obj, sort_keys=True, default=str).encode()
    return hashlib.sha1(b).digest()[:8]


class Stats:
    """Per-shard statistics, mergeable."""

    MAX_SAMPLES = 6

    def __init__(self) -> None:
        self.evaluations = 0
        self.nontrivial: set = set()
        self.labels: Counter = Counter()
        self.samples: List[Any] = []
        self.excluded: Counter = Counter()
        self.rejected: Counter = Counter()
        self.exhaustive_domains: Dict[str, int] = {}
        self.notes: List[str] = []
        self.failures: List[Dict[str, Any]] = []

    def case(self, key: Any, nontrivial: bool, labels=(), sample: Any = None) -> None:
        self.evaluations += 1
        for lab in labels:
            self.labels[lab] += 1
        if nontrivial:
            d = digest(key)
            if d not in self.nontrivial:
                self.nontrivial.add(d)
                if sample is not None and len(self.samples) < self.MAX_SAMPLES:
                    self.samples.append(sample)

    def merge(self, other: "Stats") -> None:
        self.evaluations += other.evaluations
        self.nontrivial |= other.nontrivial
        self.labels.update(other.labels)
        for s in other.samples:
            if len(self.samples) < self.MAX_SAMPLES:
                self.samples.append(s)
        self.excluded.update(other.excluded)
        self.rejected.update(other.rejected)
        for k, v in other.exhaustive_domains.items():
            self.exhaustive_domains[k] = self.exhaustive_domains.get(k, 0) + v
        for n in other.notes:
            if n not in self.notes:
                self.notes.append(n)
        self.failures.extend(other.failures)


class Ctx:
    """What a check's shard function receives."""

    def __init__(self, prop: str, tier: str, seed: int, shard: int, nshards: int, open_findings: List[str]):
        self.prop = prop
        self.tier = tier
        self.base_seed = seed
        self.shard = shard
        self.nshards = nshards
        self.open_findings = set(open_findings)
        self.stats = Stats()
        self.shrink_budget = 20.0 if tier == "quick" else 120.0

    @property
    def seed(self) -> int:
        h = hashlib.sha1(f"{self.prop}:{self.base_seed}:{self.shard}".encode()).digest()
        return int.from_bytes(h[:4], "big")

    def is_open(self, key: str) -> bool:
        return key in self.open_findings

    def thorough(self) -> bool:
        return self.tier == "thorough"

    def fail(self, f: Failure) -> None:
        self.stats.failures.append(f.to_json())

    def attempt(self, case: Any, fn: Callable, *args) -> bool:
        """Run one enumerated case; Failures (and exceptions escaping from the code under test) are recorded.
        Returns True if the case passed."""
        try:
            fn(*args)
            return True
        except Failure as f:
            self.fail(f)
        except HarnessError:
            raise
        except Exception as e:
            conv = failure_from_exception(e, case)
            if conv is None:
                raise
            self.fail(conv)
        return False

    # ---------------- hypothesis driver ----------------
    def search(self, strategy, body: Callable[[Any], None], max_examples: int, name: str = "", salt: int = 0) -> None:
        """Run `body` over `strategy`; collect the smallest Failure per signature."""
        import hypothesis
        from hypothesis import HealthCheck, Phase, given, settings

        best: Dict[str, Failure] = {}
        first_fail = [None]

        def wrapped(x):
            if first_fail[0] is not None and time.time() - first_fail[0] > self.shrink_budget:
                return
            try:
                try:
                    body(x)
                except (Failure, HarnessError):
                    raise
                except Exception as e:
                    conv = failure_from_exception(e, x)
                    if conv is None:
                        raise
                    raise conv from e
            except Failure as f:
                if first_fail[0] is None:
                    first_fail[0] = time.time()
                cur = best.get(f.signature)
                if cur is None or f.size < cur.size:
                    best[f.signature] = f
                raise

        test = given(strategy)(wrapped)
        test = settings(
            max_examples=max_examples,
            database=None,
            deadline=None,
            derandomize=False,
            report_multiple_bugs=False,
            suppress_health_check=list(HealthCheck),
            phases=[Phase.generate, Phase.shrink],
        )(test)
        test = hypothesis.seed((self.seed + 7919 * salt) & 0xFFFFFFFF)(test)
        try:
            test()
        except Failure:
            pass
        except Exception as e:  # Flaky etc. after our shrink cut-off
            if not best:
                raise HarnessError(f"hypothesis error in {name}: {type(e).__name__}: {e}") from e
        for f in best.values():
            self.fail(f)

    def run_machine(self, machine_cls, max_examples: int, steps: int, salt: int = 0) -> None:
        import hypothesis
        from hypothesis import HealthCheck, Phase, settings
        from hypothesis.stateful import run_state_machine_as_test

        st = settings(
            max_examples=max_examples,
            stateful_step_count=steps,
            database=None,
            deadline=None,
            derandomize=False,
            report_multiple_bugs=False,
            suppress_health_check=list(HealthCheck),
            phases=[Phase.generate, Phase.shrink],
        )
        seeded = hypothesis.seed((self.seed + 7919 * salt) & 0xFFFFFFFF)(machine_cls)
        run_state_machine_as_test(seeded, settings=st)


# ---------------------------------------------------------------- findings


def load_findings() -> List[Dict[str, Any]]:
    p = os.path.join(VERIF, "known_findings.json")
    if not os.path.exists(p):
        return []
    with open(p) as fh:
        return json.load(fh)["findings"]


def _shard_entry(args):
    modname, prop, tier, seed, shard, nshards, open_keys = args
    _prepare_imports()
    try:
        mod = importlib.import_module(modname)
        ctx = Ctx(prop, tier, seed, shard, nshards, open_keys)
        mod.shard(ctx)
        return ("ok", ctx.stats)
    except BaseException as e:  # noqa
        return ("error", f"{type(e).__name__}: {e}\n{traceback.format_exc()}")


def write_replay(prop: str, failure: Dict[str, Any]) -> str:
    d = os.environ.get("VERIF_REPLAY_DIR") or os.path.join(VERIF, "replays")
    os.makedirs(d, exist_ok=True)
    h = hashlib.sha1(json.dumps(failure, sort_keys=True, default=str).encode()).hexdigest()[:12]
    path = os.path.join(d, f"{prop}-{h}.json")
    with open(path, "w") as fh:
        json.dump({"property": prop, **failure}, fh, indent=1, default=str)
    return os.path.relpath(path, VERIF) if path.startswith(VERIF + os.sep) else path


def _alarm(signum, frame):
    print("HARNESS-ERROR: hard timeout reached (inconclusive, not a violation)")
    sys.stdout.flush()
    os._exit(2)


def main(argv: Optional[List[str]] = None) -> None:
    ap = argparse.ArgumentParser()
    ap.add_argument("prop")
    ap.add_argument("--tier", default=os.environ.get("VERIF_TIER", "quick"), choices=["quick", "thorough"])
    ap.add_argument("--replay", default=None)
    ap.add_argument("--shards", type=int, default=None)
    args = ap.parse_args(argv)

    if os.environ.get("PYTHONHASHSEED") != "0":
        env = dict(os.environ, PYTHONHASHSEED="0")
        os.execve(sys.executable, [sys.executable] + sys.argv, env)

    prop = args.prop.upper()
    try:
        seed = int(os.environ.get("VERIF_SEED", "0"))
    except ValueError:
        seed = 0
    _prepare_imports()
    modname = f"checks.{prop.lower()}"
    t0 = time.time()
    try:
        mod = importlib.import_module(modname)
    except Exception as e:
        print(f"HARNESS-ERROR: cannot import {modname}: {type(e).__name__}: {e}")
        traceback.print_exc()
        sys.exit(2)

    hard = getattr(mod, "HARD_TIMEOUT", {"quick": 900, "thorough": 5400})[args.tier]
    signal.signal(signal.SIGALRM, _alarm)
    signal.alarm(hard)

    # ---- replay mode
    if args.replay:
        try:
            with open(args.replay) as fh:
                rec = json.load(fh)
            f = mod.replay(rec["case"])
        except Failure as f2:
            f = f2
        except Exception as e:
            print(f"HARNESS-ERROR: replay failed: {type(e).__name__}: {e}")
            traceback.print_exc()
            sys.exit(2)
        if f is not None:
            print(f"replay: still failing: [{f.signature}] {f.message}")
            print(f"VIOLATION property={prop} replay={args.replay}")
            sys.exit(1)
        print("replay: passes")
        sys.exit(0)

    # ---- known findings: replay pinned reproducers
    findings = [f for f in load_findings() if f["property"] == prop]
    open_keys: List[str] = []
    regressions: List[Failure] = []
    n_regress = 0
    for ent in findings:
        if ent.get("status") == "fixed" and "reproducer" in ent:
            # a repaired defect suppresses nothing: its pinned input is replayed as a plain regression case
            n_regress += 1
            try:
                f = mod.replay(ent["reproducer"])
            except Failure as f2:
                f = f2
            except Exception as e:
                print(f"HARNESS-ERROR: reproducer of fixed finding {ent['key']} crashed: {type(e).__name__}: {e}")
                traceback.print_exc()
                sys.exit(2)
            if f is not None:
                regressions.append(Failure("returned:" + ent["key"] + ":" + f.signature, ent["reproducer"], "defect repaired in " + str(ent.get("commit")) + " is back: " + f.message))
            continue
        if ent.get("status") != "open":
            continue
        try:
            f = mod.replay(ent["reproducer"])
        except Failure as f2:
            f = f2
        except Exception as e:
            print(f"HARNESS-ERROR: reproducer of finding {ent['key']} crashed: {type(e).__name__}: {e}")
            traceback.print_exc()
            sys.exit(2)
        if f is not None:
            print(f"KNOWN-FINDING: property={prop} {ent['key']}: {ent['summary']}")
            open_keys.append(ent["key"])

    # ---- run shards
    nshards = args.shards or getattr(mod, "SHARDS", {"quick": 1, "thorough": 16})[args.tier]
    total = Stats()
    jobs = [(modname, prop, args.tier, seed, i, nshards, open_keys) for i in range(nshards)]
    errors: List[str] = []
    if nshards == 1:
        results = [_shard_entry(jobs[0])]
    else:
        ctxm = multiprocessing.get_context("fork")
        with ctxm.Pool(min(nshards, os.cpu_count() or 1)) as pool:
            results = pool.map(_shard_entry, jobs, chunksize=1)
    for kind, payload in results:
        if kind == "ok":
            total.merge(payload)
        else:
            errors.append(payload)
    wall = time.time() - t0
    if errors:
        print("HARNESS-ERROR: shard failed:\n" + errors[0])
        sys.exit(2)

    # ---- classify failures
    violations = []
    seen = set()
    for f in [{"signature": r.signature, "case": r.case, "message": r.message} for r in regressions] + list(total.failures):
        if f["signature"] in seen:
            continue
        seen.add(f["signature"])
        violations.append(f)

    cov: Dict[str, Any] = {
        "evaluations": total.evaluations,
        "distinct_nontrivial": len(total.nontrivial),
        "rule": getattr(mod, "RULE", ""),
        "samples": total.samples,
        "labels": dict(sorted(total.labels.items())),
        "excluded_by_known_finding": dict(total.excluded),
        "rejected_cleanly": dict(total.rejected),
        "open_known_findings": open_keys,
        "pinned_regression_inputs_replayed": n_regress,
        "shards": nshards,
    }
    if total.exhaustive_domains:
        cov["exhaustive"] = True
        cov["exhaustive_domains"] = total.exhaustive_domains
    if total.notes:
        cov["notes"] = total.notes
    ev = {
        "property_id": prop,
        "tier": args.tier,
        "seed": seed,
        "level": getattr(mod, "LEVEL", "exploration"),
        "coverage": cov,
        "assumptions": getattr(mod, "ASSUMPTIONS", []),
        "wall_s": round(wall, 2),
        "violations": len(violations),
    }
    evdir = os.environ.get("VERIF_EVIDENCE_DIR") or os.path.join(VERIF, "evidence")
    os.makedirs(evdir, exist_ok=True)
    with open(os.path.join(evdir, f"{prop}.json"), "w") as fh:
        json.dump(ev, fh, indent=1, default=str)
        fh.write("\n")

    print(
        f"{prop} {args.tier} seed={seed}: evaluations={total.evaluations} "
        f"distinct_nontrivial={len(total.nontrivial)} wall={wall:.1f}s violations={len(violations)}"
    )
    if total.excluded:
        print(f"  excluded by open known findings: {dict(total.excluded)}")
    if violations:
        for f in violations:
            path = write_replay(prop, f)
            print(f"  [{f['signature']}] {f['message'][:400]}")
            print(f"VIOLATION property={prop} replay={path}")
        sys.exit(1)
    sys.exit(0)
