"""Reference wire encoder/decoder written from the format description only (struct, no ctypes).

Layout (property C02): 7 bytes per command = opcode byte, operands in declared order, zero
padding.  register = 1 byte: bank in the 2 low bits (R=0,C=1,Q=2,M=3), 4-bit index above it.
immediate = 1 unsigned byte.  integer / array address = 4 bytes little-endian two's complement.
array entry = address + index register; slice = address + start + stop.
Subroutine header = 2 version bytes + uint16 little-endian app id.

The opcode table below is a frozen copy of the instruction table of the pinned tree
(`mov` carries the opcode it has after the C01 repair).  Kinds: r register, b 8-bit immediate,
i 32-bit integer, a address, e array entry, s array slice.
"""
from __future__ import annotations

import struct
from typing import Any, Dict, List, Tuple

COMMAND_BYTES = 7
BANK = {"R": 0, "C": 1, "Q": 2, "M": 3}
BANK_INV = {v: k for k, v in BANK.items()}

CORE: Dict[str, Tuple[int, str]] = {
    "qalloc": (1, "r"),
    "init": (2, "r"),
    "array": (3, "ra"),
    "set": (4, "ri"),
    "store": (5, "re"),
    "load": (6, "re"),
    "undef": (7, "e"),
    "lea": (8, "ra"),
    "jmp": (9, "i"),
    "bez": (10, "ri"),
    "bnz": (11, "ri"),
    "beq": (12, "rri"),
    "bne": (13, "rri"),
    "blt": (14, "rri"),
    "bge": (15, "rri"),
    "add": (16, "rrr"),
    "sub": (17, "rrr"),
    "addm": (18, "rrrr"),
    "subm": (19, "rrrr"),
    "meas": (32, "rr"),
    "create_epr": (33, "rrrrr"),
    "recv_epr": (34, "rrrr"),
    "wait_all": (35, "s"),
    "wait_any": (36, "s"),
    "wait_single": (37, "e"),
    "qfree": (38, "r"),
    "ret_reg": (39, "r"),
    "ret_arr": (40, "a"),
    "meas_basis": (41, "rrbbbb"),
    "breakpoint": (100, "bb"),
}
VANILLA: Dict[str, Tuple[int, str]] = {
    "x": (20, "r"),
    "y": (21, "r"),
    "z": (22, "r"),
    "h": (23, "r"),
    "s": (24, "r"),
    "k": (25, "r"),
    "t": (26, "r"),
    "rot_x": (27, "rbb"),
    "rot_y": (28, "rbb"),
    "rot_z": (29, "rbb"),
    "cnot": (30, "rr"),
    "cphase": (31, "rr"),
    "mov": (42, "rr"),
}
NV: Dict[str, Tuple[int, str]] = {
    "rot_x": (27, "rbb"),
    "rot_y": (28, "rbb"),
    "rot_z": (29, "rbb"),
    "crot_x": (30, "rrbb"),
    "crot_y": (31, "rrbb"),
}
TABLE: Dict[str, Dict[str, Tuple[int, str]]] = {
    "vanilla": {**CORE, **VANILLA},
    "nv": {**CORE, **NV},
    "reids": dict(CORE),
}
KIND_LETTER = {"reg": "r", "u8": "b", "i32": "i", "addr": "a", "entry": "e", "slice": "s"}


def enc_reg(s: str) -> bytes:
    return bytes([BANK[s[0]] | (int(s[1:]) << 2)])


def dec_reg(b: int) -> str:
    if b >> 6:
        raise ValueError("register padding bits set")
    return f"{BANK_INV[b & 3]}{(b >> 2) & 15}"


def enc_operand(kind: str, v: Any) -> bytes:
    if kind == "r":
        return enc_reg(v)
    if kind == "b":
        return struct.pack("<B", v)
    if kind == "i":
        return struct.pack("<i", v)
    if kind == "a":
        return struct.pack("<i", v["addr"])
    if kind == "e":
        return struct.pack("<i", v["addr"]) + enc_reg(v["idx"])
    if kind == "s":
        return struct.pack("<i", v["addr"]) + enc_reg(v["start"]) + enc_reg(v["stop"])
    raise ValueError(kind)


def encode_instr(flavour: str, mnemonic: str, values: List[Any]) -> bytes:
    opcode, kinds = TABLE[flavour][mnemonic]
    assert len(kinds) == len(values), (mnemonic, kinds, values)
    body = bytes([opcode]) + b"".join(enc_operand(k, v) for k, v in zip(kinds, values))
    assert len(body) <= COMMAND_BYTES
    return body + b"\x00" * (COMMAND_BYTES - len(body))


def encode_header(version: List[int], app_id: int) -> bytes:
    return struct.pack("<BBH", version[0], version[1], app_id)


def encode_subroutine(flavour: str, version, app_id, instrs: List[Tuple[str, List[Any]]]) -> bytes:
    return encode_header(version, app_id) + b"".join(encode_instr(flavour, m, v) for m, v in instrs)


def decode_instr(flavour: str, raw: bytes) -> Tuple[str, List[Any]]:
    assert len(raw) == COMMAND_BYTES
    by_op = {opc: (m, k) for m, (opc, k) in TABLE[flavour].items()}
    mnemonic, kinds = by_op[raw[0]]
    pos = 1
    vals: List[Any] = []
    for k in kinds:
        if k == "r":
            vals.append(dec_reg(raw[pos]))
            pos += 1
        elif k == "b":
            vals.append(raw[pos])
            pos += 1
        elif k == "i":
            vals.append(struct.unpack_from("<i", raw, pos)[0])
            pos += 4
        elif k == "a":
            vals.append({"addr": struct.unpack_from("<i", raw, pos)[0]})
            pos += 4
        elif k == "e":
            vals.append({"addr": struct.unpack_from("<i", raw, pos)[0], "idx": dec_reg(raw[pos + 4])})
            pos += 5
        elif k == "s":
            vals.append(
                {
                    "addr": struct.unpack_from("<i", raw, pos)[0],
                    "start": dec_reg(raw[pos + 4]),
                    "stop": dec_reg(raw[pos + 5]),
                }
            )
            pos += 6
    return mnemonic, vals
