"""Host-program language shared by C05, C06, C08(a), C09, C14: AST, generator, direct evaluator, SDK evaluator.

Statements (JSON lists):
  ["newarr", aid, init]                 top level; init: list of int|None
  ["newreg", rid, value]                top level; builder.new_register(value) -> RegFuture
  ["add", tref, operand, mod|None]      t.add(o, mod=m)
  ["if", style, cond, x, y|None, body]  style "ctx" (x.if_c(y) context) | "cb" (conn.if_c(x, y, body))
  ["loop", style, lid, start, stop, step, body]    style "ctx" (conn.loop: yields a Register) | "body" (conn.loop_body: RegFuture)
  ["foreach", lid, aid, with_index, body]          arr.foreach() / arr.enumerate()
  ["until", lid, maxit, body, fref, v, cleanup|None]
  ["newq", qid] ["gate", name, [qids]] ["rot", axis, qid, n, d]
  ["meas", qid, dst, inplace]           dst: array ref | ["newregm", rid] | ["newarrm", aid]
  ["free", qid]
  ["flush"]                             top level
References:
  ["elem", aid, k] ["elemloop", aid, lid] ["elemreg", aid, rid] ["reg", rid] ["loopvar", lid] ["fval", lid]
Operands of add/if may also be plain ints.
"""
from __future__ import annotations

import copy
from typing import Any, Dict, List, Optional, Tuple

from hypothesis import strategies as st

CONDS = ["eq", "ne", "lt", "ge", "ez", "nz"]
GATES1 = ["X", "Y", "Z", "H", "K", "S", "T"]
GATES2 = ["cnot", "cphase"]


class OutOfDomainProgram(Exception):
    pass


# ====================================================================== direct evaluator


class DirectResult:
    def __init__(self):
        self.snapshots: List[Dict[str, Any]] = []  # one per flush
        self.info: Dict[str, Any] = {}


def _cond(c, a, b):
    if c == "eq":
        return a == b
    if c == "ne":
        return a != b
    if c == "lt":
        return a < b
    if c == "ge":
        return a >= b
    if c == "ez":
        return a == 0
    if c == "nz":
        return a != 0
    raise ValueError(c)


class Direct:
    """Ordinary Python execution of the AST."""

    def __init__(self, outcomes: List[int], until_semantics: str = "at_most"):
        self.arrays: Dict[int, List[Optional[int]]] = {}
        self.regs: Dict[int, Optional[int]] = {}
        self.loopvars: Dict[int, int] = {}
        self.fvals: Dict[int, Tuple[int, int]] = {}  # lid -> (aid, index)
        self.events: List[Any] = []
        self.outcomes = list(outcomes)
        self.n_meas = 0
        self.live: set = set()
        self.res = DirectResult()
        self.info = {"taken": 0, "not_taken": 0, "max_iters": 0, "flushes": 0, "until_early": 0, "until_exhausted": 0, "constructs": set(), "depth": 0}
        self.steps = 0

    # ---- refs
    def _cell(self, ref):
        k = ref[0]
        if k == "elem":
            return ref[1], ref[2]
        if k == "elemloop":
            return ref[1], self.loopvars[ref[2]]
        if k == "elemreg":
            v = self.regs.get(ref[2])
            if v is None:
                raise OutOfDomainProgram("undefined register index")
            return ref[1], v
        if k == "fval":
            return self.fvals[ref[1]]
        raise ValueError(ref)

    def get(self, ref):
        if isinstance(ref, int):
            return ref
        k = ref[0]
        if k == "reg":
            v = self.regs.get(ref[1])
        elif k == "loopvar":
            v = self.loopvars[ref[1]]
        else:
            a, i = self._cell(ref)
            arr = self.arrays[a]
            if not (0 <= i < len(arr)):
                raise OutOfDomainProgram("index out of range")
            v = arr[i]
        if v is None:
            raise OutOfDomainProgram("read of undefined value")
        return v

    def put(self, ref, v):
        k = ref[0]
        if k == "reg":
            self.regs[ref[1]] = v
        else:
            a, i = self._cell(ref)
            arr = self.arrays[a]
            if not (0 <= i < len(arr)):
                raise OutOfDomainProgram("index out of range")
            arr[i] = v

    def outcome(self) -> int:
        m = self.outcomes[self.n_meas] if self.n_meas < len(self.outcomes) else 0
        self.n_meas += 1
        return m

    # ---- statements
    def run_block(self, block, depth=0):
        self.info["depth"] = max(self.info["depth"], depth)
        for s in block:
            self.run_stmt(s, depth)

    def run_stmt(self, s, depth):
        self.steps += 1
        if self.steps > 20000:
            raise OutOfDomainProgram("too many steps")
        k = s[0]
        self.info["constructs"].add(k if k not in ("if", "loop") else f"{k}:{s[1]}")
        if k == "newarr":
            self.arrays[s[1]] = list(s[2])
        elif k == "newreg":
            self.regs[s[1]] = s[2]
        elif k == "add":
            t = self.get(s[1])
            o = self.get(s[2])
            v = t + o
            if s[3] is not None:
                v %= s[3]
            self.put(s[1], v)
        elif k == "if":
            _, _style, c, x, y, body = s
            a = self.get(x)
            b = self.get(y) if y is not None else None
            if _cond(c, a, b):
                self.info["taken"] += 1
                self.run_block(body, depth + 1)
            else:
                self.info["not_taken"] += 1
        elif k == "loop":
            _, _style, lid, start, stop, step, body = s[:7]
            n = 0
            for i in range(start, stop, step):
                self.loopvars[lid] = i
                self.run_block(body, depth + 1)
                n += 1
            self.info["max_iters"] = max(self.info["max_iters"], n)
        elif k == "foreach":
            _, lid, aid, _wi, body = s
            n = 0
            for i in range(len(self.arrays[aid])):
                self.loopvars[lid] = i
                self.fvals[lid] = (aid, i)
                self.run_block(body, depth + 1)
                n += 1
            self.info["max_iters"] = max(self.info["max_iters"], n)
        elif k == "until":
            _, lid, maxit, body, fref, v, cleanup = s
            done = False
            n = 0
            for i in range(maxit):
                self.loopvars[lid] = i
                self.run_block(body, depth + 1)
                n += 1
                if self.get(fref) <= v:
                    done = True
                    break
                if cleanup:
                    self.run_block(cleanup, depth + 1)
            self.info["until_early" if done else "until_exhausted"] += 1
            self.info["max_iters"] = max(self.info["max_iters"], n)
        elif k == "newq":
            if s[1] in self.live:
                raise OutOfDomainProgram("qubit handle re-created while live")
            self.live.add(s[1])
            self.events.append(("new", s[1]))
        elif k == "gate":
            for q in s[2]:
                if q not in self.live:
                    raise OutOfDomainProgram("dead qubit")
            self.events.append((s[1].lower(), *s[2]))
        elif k == "rot":
            if s[2] not in self.live:
                raise OutOfDomainProgram("dead qubit")
            self.events.append(("rot_" + s[1].lower(), s[2], s[3], 0 if s[4] is None else s[4]))  # d omitted = documented default 0
        elif k == "meas":
            _, q, dst, inplace = s
            if q not in self.live:
                raise OutOfDomainProgram("dead qubit")
            m = self.outcome()
            self.events.append(("meas", q, m))
            if not inplace:
                self.live.discard(q)
                self.events.append(("free", q))
            if dst[0] == "newregm":
                self.regs[dst[1]] = m
            elif dst[0] == "newarrm":
                self.arrays[dst[1]] = [m]
            else:
                self.put(dst, m)
        elif k == "free":
            if s[1] not in self.live:
                raise OutOfDomainProgram("dead qubit")
            self.live.discard(s[1])
            self.events.append(("free", s[1]))
        elif k == "flush":
            self.info["flushes"] += 1
            self.res.snapshots.append(
                {
                    "events": list(self.events),
                    "arrays": copy.deepcopy(self.arrays),
                    "regs": dict(self.regs),
                    "live": sorted(self.live),
                }
            )
            self.events = []
        else:
            raise ValueError(s)


def run_direct(prog, outcomes) -> DirectResult:
    d = Direct(outcomes)
    d.run_block(prog["stmts"])
    d.res.info = d.info
    d.res.n_meas = d.n_meas
    return d.res


# ====================================================================== SDK evaluator


class SdkRun:
    """Runs the AST through the real SDK on a given connection.  `on_flush(k)` is called after every flush."""

    def __init__(self, conn, on_flush, flush_fn=None):
        self.conn = conn
        self.on_flush = on_flush
        self.flush_fn = flush_fn or (lambda c: c.flush())
        self.arrays: Dict[int, Any] = {}
        self.regs: Dict[int, Any] = {}
        self.loops: Dict[int, Any] = {}
        self.fvals: Dict[int, Any] = {}
        self.qubits: Dict[int, Any] = {}
        self.futures: List[Tuple[Any, Any]] = []  # (ref, Future handle) kept for later host reads
        self.n_flush = 0
        self.reuse_handles = False
        self.handle_cache: Dict[Any, Any] = {}

    def ref(self, r, for_add_operand=False, for_cond=False):
        from netqasm.sdk.futures import RegFuture

        if isinstance(r, int):
            return r
        k = r[0]
        if k == "elem":
            key = (r[1], r[2])
            if self.reuse_handles and key in self.handle_cache:
                return self.handle_cache[key]  # the same Future object used again, as `m = q.measure(); ... m ... m` does
            f = self.arrays[r[1]].get_future_index(r[2])
            self.futures.append((r, f))
            self.handle_cache[key] = f
            return f
        if k == "elemloop":
            return self.arrays[r[1]].get_future_index(self.loops[r[2]])
        if k == "elemreg":
            return self.arrays[r[1]].get_future_index(self.regs[r[2]])
        if k == "fval":
            return self.fvals[r[1]]
        if k == "reg":
            h = self.regs[r[1]]
            return h.reg if for_add_operand else h
        if k == "loopvar":
            h = self.loops[r[1]]
            if for_add_operand:
                return h.reg if isinstance(h, RegFuture) else h
            return h
        raise ValueError(r)

    def run_block(self, block):
        for s in block:
            self.run_stmt(s)

    def run_stmt(self, s):
        from netqasm.sdk.constraint import ValueAtMostConstraint
        from netqasm.sdk.qubit import Qubit

        conn = self.conn
        k = s[0]
        if k == "newarr":
            self.arrays[s[1]] = conn.new_array(len(s[2]), init_values=list(s[2]))
        elif k == "newreg":
            self.regs[s[1]] = conn.builder.new_register(s[2])
        elif k == "add":
            t = self.ref(s[1])
            o = self.ref(s[2], for_add_operand=True)
            if s[3] is None:
                t.add(o)
            else:
                t.add(o, mod=s[3])
        elif k == "if":
            _, style, c, x, y, body = s
            if style == "ctx":
                xf = self.ref(x)
                ctx = getattr(xf, "if_" + c)(self.ref(y)) if y is not None else getattr(xf, "if_" + c)()
                with ctx:
                    self.run_block(body)
            else:
                fn = getattr(conn, "if_" + c)

                def cb(_conn, body=body):
                    self.run_block(body)

                if y is not None:
                    fn(self.ref(x), self.ref(y), cb)
                else:
                    fn(self.ref(x), cb)
        elif k == "loop":
            _, style, lid, start, stop, step, body = s[:7]
            explicit = s[7] if len(s) > 7 else None
            kw = {}
            if explicit == "lowest-free":
                # the caller names a register it knows to be free (here: the lowest free one)
                kw["loop_register"] = str(conn.builder._mem_mgr.get_inactive_register())
            elif explicit and explicit.startswith("free:"):
                # ... or any other register it knows to be free (the k-th free one)
                from netqasm.lang.parsing.text import parse_register as _pr

                mm = conn.builder._mem_mgr
                free = [f"R{i}" for i in range(16) if not mm.is_register_active(_pr(f"R{i}"))]
                kw["loop_register"] = free[int(explicit.split(":")[1]) % len(free)] if free else "R0"
            elif explicit:
                kw["loop_register"] = explicit
            if style == "ctx":
                if "loop_register" in kw:
                    from netqasm.lang.parsing.text import parse_register

                    kw["loop_register"] = parse_register(kw["loop_register"])
                with conn.loop(stop, start=start, step=step, **kw) as reg:
                    self.loops[lid] = reg
                    self.run_block(body)
            else:

                def lb(_conn, regfut, lid=lid, body=body):
                    self.loops[lid] = regfut
                    self.run_block(body)

                conn.loop_body(lb, stop, start=start, step=step, **kw)
        elif k == "foreach":
            _, lid, aid, wi, body = s
            arr = self.arrays[aid]
            if wi:
                with arr.enumerate() as (i, v):
                    self.loops[lid] = i
                    self.fvals[lid] = v
                    self.run_block(body)
            else:
                with arr.foreach() as v:
                    self.fvals[lid] = v
                    self.run_block(body)
        elif k == "until":
            _, lid, maxit, body, fref, v, cleanup = s
            with conn.loop_until(maxit) as loop:
                self.loops[lid] = loop.loop_register
                self.run_block(body)
                loop.set_exit_condition(ValueAtMostConstraint(self.ref(fref), v))
                if cleanup:

                    def cl(_conn, cleanup=cleanup):
                        self.run_block(cleanup)

                    loop.set_cleanup_code(cl)
        elif k == "newq":
            self.qubits[s[1]] = Qubit(conn)
        elif k == "gate":
            qs = [self.qubits[q] for q in s[2]]
            if len(qs) == 1:
                getattr(qs[0], s[1])()
            else:
                getattr(qs[0], s[1])(qs[1])
        elif k == "rot":
            getattr(self.qubits[s[2]], "rot_" + s[1])(n=s[3], **({} if s[4] is None else {"d": s[4]}))
        elif k == "meas":
            _, q, dst, inplace = s
            qb = self.qubits[q]
            if dst[0] == "newregm":
                self.regs[dst[1]] = qb.measure(store_array=False, inplace=inplace)
            elif dst[0] == "newarrm":
                f = qb.measure(inplace=inplace)
                self.futures.append((["elem", dst[1], 0], f))
                self.arrays[dst[1]] = _ArrayView(conn, f)
            else:
                qb.measure(future=self.ref(dst), inplace=inplace)
        elif k == "free":
            self.qubits[s[1]].free()
        elif k == "flush":
            self.flush_fn(conn)
            self.on_flush(self.n_flush)
            self.n_flush += 1
        else:
            raise ValueError(s)


class _ArrayView:
    """array handle for the 1-element array that q.measure() allocates implicitly"""

    def __init__(self, conn, future):
        self._f = future
        self._conn = conn
        self.address = future._address

    def __len__(self):
        return 1

    def __getitem__(self, i):
        return self._conn.shared_memory.get_array_part(address=self.address, index=i)

    def get_future_index(self, i):
        from netqasm.sdk.futures import Future

        return Future(connection=self._conn, address=self.address, index=i)


# ====================================================================== generator


class _Gen:
    def __init__(self, draw, opts):
        self.draw = draw
        self.o = opts
        self.arrays: Dict[int, Dict[str, Any]] = {}  # aid -> {"len": n, "defined": bool (every cell defined), "kind"}
        self.regs: List[int] = []  # RegFuture ids usable in the current flush segment
        self.n_arr = 0
        self.n_reg = 0
        self.n_loop = 0
        self.n_q = 0
        self.budget = opts.get("qubits", 3)
        self.n_stmts = 0

    def d(self, strat):
        return self.draw(strat)

    def _empty(self) -> bool:
        """a control-flow construct whose body does nothing (an empty with-block / callback)"""
        return self.o.get("allow_empty_body", True) and self.chance(1, 8)

    def pick(self, seq):
        return self.d(st.sampled_from(list(seq)))

    def chance(self, num, den):
        return self.d(st.integers(0, den - 1)) < num

    # ---- refs
    def readable_ref(self, scope, want_future=False):
        """a reference whose value is defined when read"""
        cands = []
        for aid, a in self.arrays.items():
            if a["defined"]:
                cands.append(("arr", aid))
        if not want_future:
            for r in self.regs:
                cands.append(("reg", r))
            for lid in scope["loopvars_fut"]:
                cands.append(("loopvar", lid))
        for lid in scope["fvals"]:
            cands.append(("fval", lid))
        if not cands:
            return None
        kind, x = self.pick(cands)
        if kind == "reg":
            return ["reg", x]
        if kind == "loopvar":
            return ["loopvar", x]
        if kind == "fval":
            return ["fval", x]
        a = self.arrays[x]
        # index: constant, loop variable (if its range fits), register
        opts = ["const"]
        for lid, hi in scope["loop_hi"].items():
            if hi <= a["len"]:
                opts.append(("loop", lid))
        c = self.pick(opts)
        if c == "const":
            return ["elem", x, self.d(st.integers(0, a["len"] - 1))]
        return ["elemloop", x, c[1]]

    def operand(self, scope):
        if self.chance(1, 3):
            return self.d(st.integers(-2, 5))
        r = self.readable_ref(scope)
        return r if r is not None else self.d(st.integers(0, 3))

    # ---- statements
    def stmt(self, scope, depth):
        self.n_stmts += 1
        top = depth == 0
        kinds = ["add", "add", "if", "if", "qubit", "qubit"]
        if depth < self.o.get("max_depth", 3) and self.n_stmts < self.o.get("max_stmts", 30):
            kinds += ["loop", "loop", "foreach", "until"]
        if top:
            kinds += ["newarr", "newreg", "flush", "flush", "flush", "flush"]
            if self.o.get("allow_regm", True):
                kinds += ["measpair"]
        k = self.pick(kinds)
        if self.o.get("only") and k not in ("newarr", "newreg", "flush"):
            k = self.pick(self.o["only"])
        return getattr(self, "s_" + k)(scope, depth)

    def block(self, scope, depth, min_n=1, max_n=3):
        out = []
        for _ in range(self.d(st.integers(min_n, max_n))):
            out.extend(self.stmt(scope, depth))
        return out

    def s_newarr(self, scope, depth):
        n = self.d(st.integers(1, 5))
        kind = self.pick(["full", "full", "same", "holes"])
        if kind == "same":
            v = self.d(st.integers(0, 4))
            init = [v] * n
        elif kind == "full":
            init = [self.d(st.integers(0, 5)) for _ in range(n)]
        else:
            init = [None if self.chance(1, 2) else self.d(st.integers(0, 5)) for _ in range(n)]
        aid = self.n_arr
        self.n_arr += 1
        self.arrays[aid] = {"len": n, "defined": all(v is not None for v in init)}
        return [["newarr", aid, init]]

    def s_measpair(self, scope, depth):
        """two (or three) fresh qubits measured into registers in one segment, the first outcome used afterwards"""
        k = min(self.budget_left(scope), self.pick([2, 2, 3]))
        if k < 2:
            return []
        out = []
        rids = []
        for _ in range(k):
            q = self.n_q
            self.n_q += 1
            out.append(["newq", q])
            if self.chance(1, 2):
                out.append(["gate", self.pick(GATES1), [q]])
            rid = self.n_reg
            self.n_reg += 1
            self.regs.append(rid)
            rids.append(rid)
            out.append(["meas", q, ["newregm", rid], False])
        t = self.readable_ref(scope, want_future=True)
        if t is not None and t[0] in ("elem",):
            out.append(["add", t, ["reg", rids[0]], None])
        return out

    def s_newreg(self, scope, depth):
        if not self.o.get("allow_newreg", True):
            return self.s_newarr(scope, depth)
        rid = self.n_reg
        self.n_reg += 1
        self.regs.append(rid)
        return [["newreg", rid, self.d(st.integers(0, 6))]]

    def s_flush(self, scope, depth):
        if not self.o.get("regs_cross_flush", False):
            self.regs = []
        return [["flush"]]

    def s_add(self, scope, depth):
        t = self.readable_ref(scope)
        if t is None or t[0] in ("loopvar",):
            return []
        if t[0] == "reg" and depth > 0 and not self.o.get("reg_add_nested", True):
            return []
        o = self.operand(scope)
        mod = self.d(st.sampled_from([1, 2, 2, 3, 4, 5])) if self.chance(1, 3) else None
        if isinstance(o, list) and o[0] in ("reg", "loopvar") and t[0] == "reg" and o == t:
            pass
        return [["add", t, o, mod]]

    def _cond(self, scope):
        c = self.pick(CONDS)
        style = self.pick(["ctx", "cb"])
        if style == "ctx":
            x = self.readable_ref(scope)
            if x is None:
                return None
        else:
            x = self.operand(scope)
        y = None if c in ("ez", "nz") else self.operand(scope)
        if style == "cb" and isinstance(x, int) and (y is None or isinstance(y, int)):
            # conn.if_ez(5, body) compiles `bnz 5 ...`; keep at least one run-time value
            r = self.readable_ref(scope)
            if r is None:
                return None
            x = r
        return style, c, x, y

    def s_if(self, scope, depth):
        cnd = self._cond(scope)
        if cnd is None:
            return []
        style, c, x, y = cnd
        inner = self._inner(scope)
        body = [] if self._empty() else self.block(inner, depth + 1)
        body += self._close_qubits(inner)
        if not body and not self.o.get("allow_empty_body", True):
            return []
        return [["if", style, c, x, y, body]]

    def _inner(self, scope, **upd):
        s = {
            "loopvars_fut": list(scope["loopvars_fut"]),
            "fvals": list(scope["fvals"]),
            "loop_hi": dict(scope["loop_hi"]),
            "outer_qubits": list(scope["outer_qubits"]) + list(scope["own_qubits"]),
            "own_qubits": [],
            "in_loop": scope["in_loop"],
        }
        s.update(upd)
        return s

    def s_loop(self, scope, depth):
        style = self.pick(["ctx", "body"])
        step = self.pick([1, 1, 2, -1, -2]) if self.o.get("negative_steps", True) else self.pick([1, 1, 2])
        iters = self.d(st.integers(0, 3))
        if step > 0:
            start = self.d(st.integers(0, 2))
            stop = start + iters * step
            hi = stop
        else:
            stop = self.d(st.integers(-1, 1))
            start = stop - iters * step  # counts down to `stop` (exclusive); all loop values are > stop >= -1, i.e. >= 0
            hi = max(start + 1, 1)
        lid = self.n_loop
        self.n_loop += 1
        inner = self._inner(scope, in_loop=True)
        inner["loop_hi"][lid] = hi  # loop values are non-negative and < hi (array indexing only if it fits)
        if style == "body":
            inner["loopvars_fut"].append(lid)
        body = [] if self._empty() else self.block(inner, depth + 1)
        body += self._close_qubits(inner)
        if not body and not self.o.get("allow_empty_body", True):
            return []
        explicit = None
        heavy = self.o.get("explicit_loop_heavy", False)  # sessions in which the application names most of its loop registers
        if self.o.get("explicit_loop_register", True) and (heavy or self.chance(1, 4)):
            # a named register only for outermost loops (nested loops must not share one); "lowest-free" anywhere
            k_free = "free:" + str(self.d(st.integers(0, 15)))
            # (a named register of another bank may share its index with a register an enclosing construct holds)
            explicit = self.pick(["lowest-free", "lowest-free", "C9", "R12", k_free, k_free] + ([k_free] * 6 if heavy else [])) if depth == 0 else self.pick(["lowest-free", k_free, "C%d" % (depth - 1), "M%d" % (10 + depth)])  # one name per nesting level: nested loops never share a register
        out = ["loop", style, lid, start, stop, step, body]
        if explicit:
            out.append(explicit)
        return [out]

    def s_foreach(self, scope, depth):
        cands = [aid for aid, a in self.arrays.items() if a["defined"] and not a.get("implicit")]
        holes = [aid for aid, a in self.arrays.items() if not a["defined"] and not a.get("implicit")]
        use_holes = bool(holes) and (not cands or self.chance(1, 3)) and self.o.get("foreach_undefined", True)
        if not cands and not use_holes:
            return []
        aid = self.pick(holes if use_holes else cands)
        wi = self.chance(1, 2) or use_holes
        lid = self.n_loop
        self.n_loop += 1
        inner = self._inner(scope, in_loop=True)
        if not use_holes:
            # over an array with undefined cells only the index is usable: the element handle is never read
            inner["fvals"].append(lid)
        if wi:
            inner["loop_hi"][lid] = self.arrays[aid]["len"]
        body = [] if self._empty() else self.block(inner, depth + 1)
        body += self._close_qubits(inner)
        if not body and not self.o.get("allow_empty_body", True):
            return []
        return [["foreach", lid, aid, wi, body]]

    def s_until(self, scope, depth):
        if self.budget_left(scope) < 1:
            return []
        lid = self.n_loop
        self.n_loop += 1
        maxit = self.d(st.integers(1, 4))
        inner = self._inner(scope, in_loop=True)
        # canonical pattern: measure a fresh qubit into an array cell, exit when outcome <= v
        cands = [aid for aid, a in self.arrays.items()]
        if not cands:
            return []
        aid = self.pick(cands)
        k = self.d(st.integers(0, self.arrays[aid]["len"] - 1))
        if self.arrays[aid]["defined"] and self._empty():
            # a loop_until whose body does nothing: the exit test alone decides (at once, or after max_iterations passes)
            return [["until", lid, maxit, [], ["elem", aid, k], self.pick([0, 1, 5, -1]), None]]
        q = self.n_q
        self.n_q += 1
        body = self.block(inner, depth + 1, 0, 2)
        body += self._close_qubits(inner)
        body += [["newq", q]] + ([["gate", "H", [q]]] if self.chance(1, 2) else []) + [["meas", q, ["elem", aid, k], False]]
        v = self.pick([0, 0, 1, -1])
        cleanup = None
        if self.chance(1, 2):
            t = self.readable_ref(scope, want_future=True)
            if t is not None and t[0] != "fval":
                cleanup = [["add", t, 1, None]]
        return [["until", lid, maxit, body, ["elem", aid, k], v, cleanup]]

    def budget_left(self, scope):
        return self.budget - len(scope["outer_qubits"]) - len(scope["own_qubits"])

    def s_qubit(self, scope, depth):
        out = []
        own = scope["own_qubits"]
        allq = scope["outer_qubits"] + own
        choice = self.pick(["new", "gate", "gate", "meas", "meas2"])
        if choice == "new" or not allq:
            if self.budget_left(scope) < 1:
                return []
            q = self.n_q
            self.n_q += 1
            own.append(q)
            out.append(["newq", q])
            if self.chance(1, 2):
                out.append(["gate", self.pick(GATES1), [q]])
            return out
        if choice == "gate":
            if len(allq) >= 2 and self.chance(1, 3):
                a = self.pick(allq)
                b = self.pick([x for x in allq if x != a])
                return [["gate", self.pick(GATES2), [a, b]]]
            if self.chance(1, 4):
                return [["rot", self.pick("XYZ"), self.pick(allq), self.d(st.integers(0, 31)), None if self.chance(1, 5) else self.d(st.integers(0, 5))]]
            return [["gate", self.pick(GATES1), [self.pick(allq)]]]
        # measurement
        inplace = self.chance(1, 3) or not own
        q = self.pick(allq) if inplace else self.pick(own)
        dst = self._meas_dst(scope, depth)
        if dst is None:
            return []
        if not inplace:
            own.remove(q)
        out.append(["meas", q, dst, inplace])
        if choice == "meas2" and dst[0] in ("elem", "elemloop") and self.chance(2, 3):
            # the classic pattern: branch on the outcome that was just measured
            inner = self._inner(scope)
            body = self.block(inner, depth + 1, 1, 2)
            body += self._close_qubits(inner)
            if body:
                c = self.pick(["eq", "ne", "ez", "nz"])
                out.append(["if", self.pick(["ctx", "cb"]), c, dst, None if c in ("ez", "nz") else self.pick([0, 1]), body])
        return out

    def _meas_dst(self, scope, depth):
        opts = []
        if self.arrays:
            opts += ["elem", "elem"]
            if scope["loop_hi"]:
                opts.append("elemloop")
        if depth == 0:
            opts += ["newarrm"]
            if self.o.get("allow_regm", True):
                opts += ["newregm"]
        if not opts:
            return None
        c = self.pick(opts)
        if c == "newarrm":
            aid = self.n_arr
            self.n_arr += 1
            self.arrays[aid] = {"len": 1, "defined": True, "implicit": True}
            return ["newarrm", aid]
        if c == "newregm":
            rid = self.n_reg
            self.n_reg += 1
            self.regs.append(rid)
            return ["newregm", rid]
        if c == "elemloop":
            fits = [(aid, lid) for aid, a in self.arrays.items() for lid, hi in scope["loop_hi"].items() if hi <= a["len"]]
            if fits:
                aid, lid = self.pick(fits)
                return ["elemloop", aid, lid]
        aid = self.pick(list(self.arrays))
        k = self.d(st.integers(0, self.arrays[aid]["len"] - 1))
        if depth == 0 and not scope["in_loop"]:
            pass
        return ["elem", aid, k]

    def _close_qubits(self, scope):
        """qubits created in a loop body are consumed in it"""
        out = []
        for q in list(scope["own_qubits"]):
            dst = self._meas_dst(scope, 1)
            if dst is None:
                out.append(["free", q])
            else:
                out.append(["meas", q, dst, False])
        scope["own_qubits"].clear()
        return out


@st.composite
def st_program(draw, opts=None):
    opts = dict(opts or {})
    g = _Gen(draw, opts)
    scope = {"loopvars_fut": [], "fvals": [], "loop_hi": {}, "outer_qubits": [], "own_qubits": [], "in_loop": False}
    stmts: List[Any] = []
    # start with one or two arrays so that there is data to work on
    for _ in range(draw(st.integers(1, 2))):
        stmts += g.s_newarr(scope, 0)
    n = draw(st.integers(2, opts.get("max_top", 8)))
    for _ in range(n):
        stmts += g.stmt(scope, 0)
    stmts.append(["flush"])
    n_meas_bound = 40
    outcomes = draw(st.lists(st.integers(0, 1), min_size=0, max_size=n_meas_bound))
    return {"stmts": stmts, "outcomes": outcomes, "qubits": g.budget, "reuse_handles": draw(st.booleans())}
