"""Reference interpreter for classical NetQASM (written from the instruction semantics, not from the executor).

Program form: list of [mnemonic, [operand, ...]] as produced by gen_instr.instr_to_json:
  register "R3" ; integer literal ; {"addr": a} ; {"addr": a, "idx": reg-or-int} ;
  {"addr": a, "start": .., "stop": ..} ; branch target = int (assembled) or {"label": name} (source).
Source mode additionally allows an int literal wherever a register is read (the literal *is* the value)
and ["label", name] pseudo-instructions.

Semantics: unbounded integers, mathematical modulo, absent register / None entry = undefined.
Faults (execution stops at that instruction, nothing is updated): store of an undefined register, load of an
undefined entry, use of an undefined register as index / qubit address / returned register, modulus < 1,
array access past the end or to an array that does not exist, double qalloc, qalloc outside the unit module,
qfree of an unallocated qubit.
OutOfDomain (case is not judged): arithmetic/branch/array-size read of an undefined register, negative
index or qubit address (Python wrap-around in the executor is not a documented semantics).
"""
from __future__ import annotations

import copy
from typing import Any, Dict, List, Optional, Tuple


class Fault(Exception):
    def __init__(self, pc: int, kind: str):
        super().__init__(f"fault at {pc}: {kind}")
        self.pc = pc
        self.kind = kind


class OutOfDomain(Exception):
    pass


class RefState:
    def __init__(self, unit_size: int = 5):
        self.regs: Dict[str, int] = {}
        self.arrays: Dict[int, List[Optional[int]]] = {}
        self.shared_regs: Dict[str, int] = {}
        self.shared_arrays: Dict[int, List[Optional[int]]] = {}
        self.qubits: Dict[int, int] = {}  # virtual -> physical
        self.used_phys: set = set()
        self.unit_size = unit_size
        self.ret_log: List[Any] = []  # (kind, key, snapshot) in execution order

    def clone(self) -> "RefState":
        return copy.deepcopy(self)

    def snapshot(self) -> Dict[str, Any]:
        return {
            "regs": dict(sorted(self.regs.items())),
            "arrays": {k: list(v) for k, v in sorted(self.arrays.items())},
            "qubits": dict(sorted(self.qubits.items())),
            "used_phys": sorted(self.used_phys),
        }


def _is_reg(o) -> bool:
    return isinstance(o, str)


class Machine:
    """Executes one program against a RefState."""

    def __init__(self, state: RefState, prog: List[Any], source_mode: bool = False, other_phys_used=None):
        self.st = state
        self.source_mode = source_mode
        self.other_phys_used = other_phys_used if other_phys_used is not None else set()
        # strip labels in source mode
        self.labels: Dict[str, int] = {}
        self.prog: List[Any] = []
        self.src_index: List[int] = []  # prog index -> original index
        for i, ins in enumerate(prog):
            if ins[0] == "label":
                if ins[1] in self.labels:
                    raise OutOfDomain("duplicate label")
                self.labels[ins[1]] = len(self.prog)
            else:
                self.prog.append(ins)
                self.src_index.append(i)
        self.pc = 0
        self.trace: List[int] = []
        self.branch_log: List[Tuple[int, bool]] = []

    # ---- operand evaluation
    def rd(self, o, what="arith"):
        """read a value operand: literal or register. Undefined -> OutOfDomain (unless caller handles)."""
        if isinstance(o, bool):
            raise OutOfDomain("bool")
        if isinstance(o, int):
            return o
        if _is_reg(o):
            if o not in self.st.regs:
                raise OutOfDomain(f"read of undefined register {o} in {what}")
            return self.st.regs[o]
        raise OutOfDomain(f"bad operand {o!r}")

    def rd_or_none(self, o):
        if isinstance(o, int):
            return o
        return self.st.regs.get(o)

    def target(self, o) -> int:
        if isinstance(o, dict) and "label" in o:
            if o["label"] not in self.labels:
                raise OutOfDomain("unknown label")
            return self.labels[o["label"]]
        if isinstance(o, int):
            return o
        raise OutOfDomain(f"bad branch target {o!r}")

    def index(self, o, pc) -> int:
        v = self.rd_or_none(o)
        if v is None:
            raise Fault(pc, "undefined index register")
        if v < 0:
            raise OutOfDomain("negative index")
        return v

    def array(self, addr, pc) -> List[Optional[int]]:
        if addr not in self.st.arrays:
            raise Fault(pc, "no such array")
        return self.st.arrays[addr]

    # ---- one step
    def step(self) -> None:
        pc = self.pc
        mn, ops = self.prog[pc]
        st = self.st
        self.trace.append(pc)
        nxt = pc + 1
        if mn == "set":
            st.regs[ops[0]] = ops[1]
        elif mn in ("add", "sub", "addm", "subm"):
            if mn in ("addm", "subm"):
                m = self.rd_or_none(ops[3])
                if m is None:
                    raise OutOfDomain("undefined modulus")
                if m < 1:
                    raise Fault(pc, "modulus < 1")
            a = self.rd(ops[1])
            b = self.rd(ops[2])
            v = a + b if mn in ("add", "addm") else a - b
            if mn in ("addm", "subm"):
                v = v % m
            st.regs[ops[0]] = v
        elif mn == "jmp":
            nxt = self.target(ops[0])
            self.branch_log.append((pc, True))
        elif mn in ("bez", "bnz"):
            a = self.rd(ops[0], "branch")
            taken = (a == 0) if mn == "bez" else (a != 0)
            self.branch_log.append((pc, taken))
            if taken:
                nxt = self.target(ops[1])
        elif mn in ("beq", "bne", "blt", "bge"):
            a = self.rd(ops[0], "branch")
            b = self.rd(ops[1], "branch")
            taken = {"beq": a == b, "bne": a != b, "blt": a < b, "bge": a >= b}[mn]
            self.branch_log.append((pc, taken))
            if taken:
                nxt = self.target(ops[2])
        elif mn == "array":
            n = self.rd(ops[0], "array size")
            if n < 0:
                raise OutOfDomain("negative array size")
            st.arrays[ops[1]["addr"]] = [None] * n
        elif mn == "store":
            v = self.rd_or_none(ops[0])
            if v is None:
                raise Fault(pc, "store of undefined register")
            i = self.index(ops[1]["idx"], pc)
            arr = self.array(ops[1]["addr"], pc)
            if i >= len(arr):
                raise Fault(pc, "index past end")
            arr[i] = v
        elif mn == "load":
            i = self.index(ops[1]["idx"], pc)
            if ops[1]["addr"] not in st.arrays:
                raise Fault(pc, "no such array")
            arr = st.arrays[ops[1]["addr"]]
            if i >= len(arr):
                raise Fault(pc, "index past end")
            if arr[i] is None:
                raise Fault(pc, "load of undefined entry")
            st.regs[ops[0]] = arr[i]
        elif mn == "undef":
            i = self.index(ops[0]["idx"], pc)
            arr = self.array(ops[0]["addr"], pc)
            if i >= len(arr):
                raise Fault(pc, "index past end")
            arr[i] = None
        elif mn == "lea":
            st.regs[ops[0]] = ops[1]["addr"]
        elif mn == "ret_reg":
            v = self.rd_or_none(ops[0])
            if v is None:
                raise Fault(pc, "ret_reg of undefined register")
            st.shared_regs[ops[0]] = v
            st.ret_log.append(("reg", ops[0], v))
        elif mn == "ret_arr":
            arr = self.array(ops[0]["addr"], pc)
            # in-process semantics of the repository: the host is handed the application's own list (later stores to
            # this array are host-visible; a re-declaration of the address installs a *new* list and leaves the host's)
            st.shared_arrays[ops[0]["addr"]] = arr
            st.ret_log.append(("arr", ops[0]["addr"], list(arr)))
        elif mn == "qalloc":
            v = self.rd_or_none(ops[0])
            if v is None:
                raise Fault(pc, "qalloc with undefined register")
            if v < 0:
                raise OutOfDomain("negative qubit address")
            if v >= st.unit_size:
                raise Fault(pc, "qalloc outside unit module")
            if v in st.qubits:
                raise Fault(pc, "double qalloc")
            phys = 0
            while phys in st.used_phys or phys in self.other_phys_used:
                phys += 1
            st.used_phys.add(phys)
            st.qubits[v] = phys
        elif mn == "qfree":
            v = self.rd(ops[0], "qfree")
            if v < 0:
                raise OutOfDomain("negative qubit address")
            if v >= st.unit_size or v not in st.qubits:
                raise Fault(pc, "qfree of unallocated qubit")
            st.used_phys.discard(st.qubits.pop(v))
        elif mn in ("wait_all", "wait_any"):
            a = ops[0]
            lo = self.index(a["start"], pc)
            hi = self.index(a["stop"], pc)
            arr = self.array(a["addr"], pc)
            vals = arr[lo:hi]
            blocked = any(v is None for v in vals) if mn == "wait_all" else all(v is None for v in vals)
            if blocked:
                raise OutOfDomain("wait would block")
        elif mn == "wait_single":
            i = self.index(ops[0]["idx"], pc)
            arr = self.array(ops[0]["addr"], pc)
            if i >= len(arr):
                raise Fault(pc, "index past end")
            if arr[i] is None:
                raise OutOfDomain("wait would block")
        else:
            raise OutOfDomain(f"instruction {mn} not modelled")
        self.pc = nxt

    def run(self, max_steps: int) -> Optional[Fault]:
        """Run until the pc leaves the program, a fault, or the step bound.  Returns the fault (or None)."""
        steps = 0
        while 0 <= self.pc < len(self.prog):
            if steps >= max_steps:
                return None
            steps += 1
            try:
                self.step()
            except Fault as f:
                return f
        return None

    @property
    def finished(self) -> bool:
        return not (0 <= self.pc < len(self.prog))
