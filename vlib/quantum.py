"""Independent gate algebra (numpy only): conventions stated by the repository's docs/comments.

rotation      R_a(t)    = exp(-i t sigma_a / 2) = cos(t/2) I - i sin(t/2) sigma_a
ctrl-rotation crot_a(t) = |0><0| (x) R_a(t) + |1><1| (x) R_a(-t)      (first operand = control)
angle(n, d)   = n * pi / 2**d
Qubit 0 of an n-qubit register is the most significant tensor factor.
Bell states (qlink_compat.BellState): 0 Phi+ = |00>+|11>, 1 Psi+ = |01>+|10>, 2 Psi- = |01>-|10>, 3 Phi- = |00>-|11>
"""
from __future__ import annotations

import math
from typing import List, Optional, Sequence

import numpy as np

I2 = np.eye(2, dtype=complex)
X = np.array([[0, 1], [1, 0]], dtype=complex)
Y = np.array([[0, -1j], [1j, 0]], dtype=complex)
Z = np.array([[1, 0], [0, -1]], dtype=complex)
H = (X + Z) / math.sqrt(2)
K = (Y + Z) / math.sqrt(2)
S = np.array([[1, 0], [0, 1j]], dtype=complex)
T = np.array([[1, 0], [0, np.exp(1j * math.pi / 4)]], dtype=complex)
P0 = np.array([[1, 0], [0, 0]], dtype=complex)
P1 = np.array([[0, 0], [0, 1]], dtype=complex)
PAULI = {"x": X, "y": Y, "z": Z, "i": I2}
NAMED = {"x": X, "y": Y, "z": Z, "h": H, "k": K, "s": S, "t": T}

CNOT = np.kron(P0, I2) + np.kron(P1, X)
CZ = np.kron(P0, I2) + np.kron(P1, Z)
SWAP = np.array([[1, 0, 0, 0], [0, 0, 1, 0], [0, 1, 0, 0], [0, 0, 0, 1]], dtype=complex)


def angle(n: int, d: int) -> float:
    return n * math.pi / (2.0**d)


def rot(axis: str, theta: float) -> np.ndarray:
    return math.cos(theta / 2) * I2 - 1j * math.sin(theta / 2) * PAULI[axis]


def crot(axis: str, theta: float) -> np.ndarray:
    return np.kron(P0, rot(axis, theta)) + np.kron(P1, rot(axis, -theta))


def embed(U: np.ndarray, qubits: Sequence[int], n: int) -> np.ndarray:
    """k-qubit operator U acting on `qubits` (in U's own order) of an n-qubit register."""
    k = len(qubits)
    assert U.shape == (2**k, 2**k)
    full = np.zeros((2**n, 2**n), dtype=complex)
    others = [q for q in range(n) if q not in qubits]
    for col in range(2**n):
        bits = [(col >> (n - 1 - q)) & 1 for q in range(n)]
        sub_in = 0
        for q in qubits:
            sub_in = (sub_in << 1) | bits[q]
        for sub_out in range(2**k):
            amp = U[sub_out, sub_in]
            if amp == 0:
                continue
            ob = list(bits)
            for j, q in enumerate(qubits):
                ob[q] = (sub_out >> (k - 1 - j)) & 1
            row = 0
            for q in range(n):
                row = (row << 1) | ob[q]
            full[row, col] += amp
    return full


def equal_up_to_phase(A: np.ndarray, B: np.ndarray, tol: float = 1e-9) -> bool:
    A = np.asarray(A, dtype=complex)
    B = np.asarray(B, dtype=complex)
    if A.shape != B.shape:
        return False
    idx = np.unravel_index(np.argmax(np.abs(B)), B.shape)
    if abs(B[idx]) < 1e-12 or abs(A[idx]) < 1e-12:
        return bool(np.allclose(A, B, atol=tol))
    ph = A[idx] / B[idx]
    ph /= abs(ph)
    return bool(np.max(np.abs(A - ph * B)) < tol)


def phase_distance(A: np.ndarray, B: np.ndarray) -> float:
    A = np.asarray(A, dtype=complex)
    B = np.asarray(B, dtype=complex)
    idx = np.unravel_index(np.argmax(np.abs(B)), B.shape)
    if abs(B[idx]) < 1e-12 or abs(A[idx]) < 1e-12:
        return float(np.max(np.abs(A - B)))
    ph = A[idx] / B[idx]
    ph /= abs(ph)
    return float(np.max(np.abs(A - ph * B)))


BELL_VECS = {
    0: np.array([1, 0, 0, 1], dtype=complex) / math.sqrt(2),
    1: np.array([0, 1, 1, 0], dtype=complex) / math.sqrt(2),
    2: np.array([0, 1, -1, 0], dtype=complex) / math.sqrt(2),
    3: np.array([1, 0, 0, -1], dtype=complex) / math.sqrt(2),
}


class StateVector:
    """n-qubit pure state over labelled qubits (labels are arbitrary hashables)."""

    def __init__(self) -> None:
        self.psi = np.array([1 + 0j])
        self.labels: List = []

    def copy(self) -> "StateVector":
        s = StateVector()
        s.psi = self.psi.copy()
        s.labels = list(self.labels)
        return s

    def add(self, label, state: Optional[np.ndarray] = None) -> None:
        assert label not in self.labels, f"qubit {label} already present"
        v = np.array([1, 0], dtype=complex) if state is None else np.asarray(state, dtype=complex)
        self.psi = np.kron(self.psi, v)
        self.labels.append(label)

    def add_joint(self, labels: Sequence, state: np.ndarray) -> None:
        for lab in labels:
            assert lab not in self.labels
        self.psi = np.kron(self.psi, np.asarray(state, dtype=complex))
        self.labels.extend(labels)

    def _tensor(self):
        return self.psi.reshape([2] * len(self.labels))

    def apply(self, U: np.ndarray, labels: Sequence) -> None:
        k = len(labels)
        axes = [self.labels.index(lab) for lab in labels]
        t = self._tensor()
        Ut = np.asarray(U, dtype=complex).reshape([2] * (2 * k))
        t = np.tensordot(Ut, t, axes=(list(range(k, 2 * k)), axes))
        t = np.moveaxis(t, list(range(k)), axes)
        self.psi = t.reshape(-1)

    def prob1(self, label) -> float:
        ax = self.labels.index(label)
        t = np.moveaxis(self._tensor(), ax, 0)
        return float(np.sum(np.abs(t[1]) ** 2))

    def measure(self, label, want: Optional[int] = None) -> int:
        """Projective Z measurement with a forced outcome (falls back if it has ~zero probability)."""
        ax = self.labels.index(label)
        t = np.moveaxis(self._tensor(), ax, 0)
        p1 = float(np.sum(np.abs(t[1]) ** 2))
        out = want if want is not None else 0  # deterministic default (no dependence on rounding noise)
        if out == 1 and p1 < 1e-9:
            out = 0
        if out == 0 and 1 - p1 < 1e-9:
            out = 1
        proj = np.zeros_like(t)
        proj[out] = t[out]
        proj = proj / np.linalg.norm(proj)
        self.psi = np.moveaxis(proj, 0, ax).reshape(-1)
        return out

    def remove(self, label) -> None:
        """Drop a qubit; it must be in a product state with the rest (measure first if unsure)."""
        ax = self.labels.index(label)
        t = np.moveaxis(self._tensor(), ax, 0)
        n0, n1 = np.linalg.norm(t[0]), np.linalg.norm(t[1])
        if min(n0, n1) > 1e-9:
            # entangled or superposed: trace out by measuring; outcome 0 whenever it is possible (never decided by rounding noise)
            self.measure(label, 0)
            t = np.moveaxis(self._tensor(), ax, 0)
            n0, n1 = np.linalg.norm(t[0]), np.linalg.norm(t[1])
        rest = t[0] if n0 >= n1 else t[1]
        self.psi = (rest / np.linalg.norm(rest)).reshape(-1)
        self.labels.pop(ax)

    def reduced(self, labels: Sequence) -> np.ndarray:
        axes = [self.labels.index(lab) for lab in labels]
        t = np.moveaxis(self._tensor(), axes, list(range(len(axes)))).reshape(2 ** len(axes), -1)
        return t @ t.conj().T

    def ordered(self, labels: Sequence) -> np.ndarray:
        """state vector with qubits reordered as `labels` (must be all labels)"""
        assert sorted(map(str, labels)) == sorted(map(str, self.labels))
        axes = [self.labels.index(lab) for lab in labels]
        return np.transpose(self._tensor(), axes).reshape(-1)


def fidelity_pure(rho: np.ndarray, vec: np.ndarray) -> float:
    return float(np.real(vec.conj() @ rho @ vec))


def vec_equal_up_to_phase(a: np.ndarray, b: np.ndarray, tol: float = 1e-9) -> bool:
    ov = np.vdot(b, a)
    if abs(ov) < 1e-12:
        return False
    return bool(np.max(np.abs(a - (ov / abs(ov)) * b)) < tol)
