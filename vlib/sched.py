"""Deterministic scheduler for real threads inside the thread-socket hub.

Every participating thread installs sys.settrace; on each `line` event in the hub module it parks until
the scheduler names it.  The hub's lock is replaced by a cooperative lock the scheduler understands and
sleep/timer by a virtual clock, so polling loops are schedule points, not delays.  A run is a pure function
of the scripts and the choice list.
"""
from __future__ import annotations

import sys
import threading
from typing import Any, Callable, Dict, List, Optional


class Stuck(Exception):
    """raised inside a polling loop that can never make progress (every other thread has finished)"""


class SchedulerError(Exception):
    pass


class _Abort(BaseException):
    pass


class Scheduler:
    def __init__(self, choices: List[int], trace_files: List[str], max_steps: int = 6000):
        self.choices = list(choices)
        self.ci = 0
        self.cv = threading.Condition()
        self.current: Optional[str] = None
        self.state: Dict[str, str] = {}  # ready | blocked_lock | done
        self.trace_files = set(trace_files)
        self.max_steps = max_steps
        self.steps = 0
        self.error: Optional[BaseException] = None
        self.lock_owner: Optional[str] = None
        self.vtime = 0.0
        self.preemptions = 0
        self.preempt_in_hub = 0
        self.idle_sleeps: Dict[str, int] = {}
        self.idle_limit = 2  # empty polls after everybody else finished before a loop counts as stuck (the first may be stale)
        self.sleep_count: Dict[str, int] = {}
        self.aborted = False
        self.inconclusive: Optional[str] = None
        self.thread_errors: Dict[str, BaseException] = {}

    # ---- instrumented primitives
    def make_lock(self):
        sch = self

        class CoopLock:
            def __enter__(self):
                self.acquire()
                return self

            def __exit__(self, *a):
                self.release()

            def acquire(self, *a, **k):
                me = threading.current_thread().name
                while sch.lock_owner is not None:
                    sch.state[me] = "blocked_lock"
                    sch.yield_point(me)
                sch.state[me] = "ready"
                sch.lock_owner = me
                return True

            def release(self):
                sch.lock_owner = None

            def locked(self):
                return sch.lock_owner is not None

        return CoopLock()

    def sleep(self, dt: float) -> None:
        me = threading.current_thread().name
        self.vtime += dt
        self.sleep_count[me] = self.sleep_count.get(me, 0) + 1
        others_done = all(st == "done" for n, st in self.state.items() if n != me)
        if others_done:
            self.idle_sleeps[me] = self.idle_sleeps.get(me, 0) + 1
            if self.idle_sleeps[me] >= self.idle_limit:
                raise Stuck()
        self.yield_point(me, polling=True)

    def timer(self) -> float:
        return self.vtime

    # ---- scheduling
    def _runnable(self) -> List[str]:
        return sorted(n for n, st in self.state.items() if st == "ready" or (st == "blocked_lock" and self.lock_owner is None))

    def _pick(self, me: Optional[str], polling: bool = False) -> Optional[str]:
        runnable = self._runnable()
        if not runnable:
            if all(st == "done" for st in self.state.values()):
                return None
            self.inconclusive = f"deadlock: {dict(self.state)} lock_owner={self.lock_owner}"
            self.aborted = True
            return None
        c = self.choices[self.ci] if self.ci < len(self.choices) else 0
        self.ci += 1
        # choice 0 = keep running the current thread when possible (so the all-zero schedule is sequential)
        if me in runnable and not polling:
            order = [me] + [r for r in runnable if r != me]
        elif me in runnable:
            # a thread that just slept in a polling loop lets the others go first (choice 0 = round robin)
            others = [r for r in runnable if r != me]
            others = [r for r in others if r > me] + [r for r in others if r < me]
            order = others + [me]
        else:
            order = runnable
        nxt = order[c % len(order)]
        if me is not None and nxt != me and me in runnable and not polling:
            self.preemptions += 1
        return nxt

    @staticmethod
    def _in_finalizer() -> bool:
        f = sys._getframe(2)
        while f is not None:
            if f.f_code.co_name == "__del__":
                return True
            f = f.f_back
        return False

    def yield_point(self, me: str, polling: bool = False) -> None:
        if self.aborted and self._in_finalizer():
            return  # a half-built socket being finalised while its thread unwinds: let it finish quietly
        with self.cv:
            self.steps += 1
            if self.steps > self.max_steps:
                self.inconclusive = "step bound"
                self.aborted = True
            if self.aborted:
                self.cv.notify_all()
                raise _Abort()
            self.current = self._pick(me, polling)
            self.cv.notify_all()
            while self.current != me and not self.aborted:
                self.cv.wait(timeout=10)
            if self.aborted:
                raise _Abort()

    def _tracer(self, frame, event, arg):
        if frame.f_code.co_filename not in self.trace_files:
            return None

        def local(frame, event, arg):
            if event == "line":
                self.yield_point(threading.current_thread().name)
            return local

        return local

    def run(self, funcs: Dict[str, Callable[[], None]]) -> None:
        threads = {}

        def wrap(name, f):
            def body():
                with self.cv:
                    while self.current != name and not self.aborted:
                        self.cv.wait(timeout=10)
                sys.settrace(self._tracer)
                try:
                    if not self.aborted:
                        f()
                except _Abort:
                    pass
                except BaseException as e:  # noqa
                    self.thread_errors[name] = e
                finally:
                    sys.settrace(None)
                    with self.cv:
                        self.state[name] = "done"
                        if self.lock_owner == name:
                            self.lock_owner = None
                        if not self.aborted:
                            self.current = self._pick(None)
                        self.cv.notify_all()

            return body

        for name, f in funcs.items():
            self.state[name] = "ready"
            threads[name] = threading.Thread(target=wrap(name, f), name=name, daemon=True)
        for t in threads.values():
            t.start()
        with self.cv:
            self.current = self._pick(None)
            self.cv.notify_all()
        for t in threads.values():
            t.join(timeout=30)
        if any(t.is_alive() for t in threads.values()):
            with self.cv:
                self.aborted = True
                self.inconclusive = self.inconclusive or "thread did not finish"
                self.cv.notify_all()
            for t in threads.values():
                t.join(timeout=5)
