"""Operand and instruction strategies per flavour, discovered by introspection.

JSON form of an instruction: [mnemonic, [operand, ...]] with
  register  -> "R3" / "C0" / "Q15" / "M7"
  u8 / i32  -> int
  address   -> {"addr": n}
  entry     -> {"addr": n, "idx": "R1"}
  slice     -> {"addr": n, "start": "R1", "stop": "R2"}
"""
from __future__ import annotations

import functools
from typing import Any, Dict, List, Tuple

from hypothesis import strategies as st

from netqasm.lang import operand as op
from netqasm.lang.encoding import RegisterName
from netqasm.lang.instr import base as ibase
from netqasm.lang.instr import flavour as iflav

from .runner import HarnessError

# field name, kind   (kinds: reg, u8, i32, addr, entry, slice)
SHAPES: Dict[type, List[Tuple[str, str]]] = {
    ibase.NoOperandInstruction: [],
    ibase.RegInstruction: [("reg", "reg")],
    ibase.RegRegInstruction: [("reg0", "reg"), ("reg1", "reg")],
    ibase.RegImmImmInstruction: [("reg", "reg"), ("imm0", "u8"), ("imm1", "u8")],
    ibase.RegRegImmImmInstruction: [("reg0", "reg"), ("reg1", "reg"), ("imm0", "u8"), ("imm1", "u8")],
    ibase.RegRegImm4Instruction: [
        ("reg0", "reg"),
        ("reg1", "reg"),
        ("imm0", "u8"),
        ("imm1", "u8"),
        ("imm2", "u8"),
        ("imm3", "u8"),
    ],
    ibase.RegRegRegInstruction: [("reg0", "reg"), ("reg1", "reg"), ("reg2", "reg")],
    ibase.RegRegRegRegInstruction: [("reg0", "reg"), ("reg1", "reg"), ("reg2", "reg"), ("reg3", "reg")],
    ibase.ImmInstruction: [("imm", "i32")],
    ibase.ImmImmInstruction: [("imm0", "u8"), ("imm1", "u8")],
    ibase.RegRegImmInstruction: [("reg0", "reg"), ("reg1", "reg"), ("imm", "i32")],
    ibase.RegImmInstruction: [("reg", "reg"), ("imm", "i32")],
    ibase.RegEntryInstruction: [("reg", "reg"), ("entry", "entry")],
    ibase.RegAddrInstruction: [("reg", "reg"), ("address", "addr")],
    ibase.ArrayEntryInstruction: [("entry", "entry")],
    ibase.ArraySliceInstruction: [("slice", "slice")],
    ibase.AddrInstruction: [("address", "addr")],
    ibase.Reg5Instruction: [("reg0", "reg"), ("reg1", "reg"), ("reg2", "reg"), ("reg3", "reg"), ("reg4", "reg")],
}

FLAVOURS = {
    "vanilla": iflav.VanillaFlavour,
    "nv": iflav.NVFlavour,
    "reids": iflav.REIDSFlavour,
}


def shape_of(cls) -> List[Tuple[str, str]]:
    for b in cls.__mro__:
        if b in SHAPES:
            return SHAPES[b]
    raise HarnessError(f"unknown operand shape for instruction class {cls.__name__}")


@functools.lru_cache(maxsize=None)
def flavour_classes(fname: str) -> List[type]:
    """All instruction classes of a flavour, from the live module (core + flavour specific)."""
    fl = FLAVOURS[fname]()
    out = []
    for c in list(iflav.CORE_INSTRUCTIONS) + list(fl.instrs):
        if c not in out:
            out.append(c)
    return out


# ------------------------------------------------------------------ JSON <-> objects


def reg_from_str(s: str) -> op.Register:
    return op.Register(RegisterName[s[0]], int(s[1:]))


def reg_to_str(r: op.Register) -> str:
    return f"{r.name.name}{r.index}"


def operand_from_json(kind: str, v: Any):
    if kind == "reg":
        return reg_from_str(v)
    if kind in ("u8", "i32"):
        return op.Immediate(v)
    if kind == "addr":
        return op.Address(v["addr"])
    if kind == "entry":
        return op.ArrayEntry(op.Address(v["addr"]), reg_from_str(v["idx"]))
    if kind == "slice":
        return op.ArraySlice(op.Address(v["addr"]), reg_from_str(v["start"]), reg_from_str(v["stop"]))
    raise HarnessError(kind)


def operand_to_json(o) -> Any:
    if isinstance(o, op.Register):
        return reg_to_str(o)
    if isinstance(o, op.Immediate):
        return o.value
    if isinstance(o, op.Address):
        return {"addr": o.address}
    if isinstance(o, op.ArrayEntry):
        return {"addr": o.address.address, "idx": operand_to_json(o.index)}
    if isinstance(o, op.ArraySlice):
        return {"addr": o.address.address, "start": operand_to_json(o.start), "stop": operand_to_json(o.stop)}
    if isinstance(o, op.Template):
        return {"template": o.name}
    if isinstance(o, int):
        return o
    return repr(o)


def build(cls, values: List[Any]):
    shape = shape_of(cls)
    if len(shape) != len(values):
        raise HarnessError(f"{cls.__name__}: {len(values)} values for shape {shape}")
    kw = {name: operand_from_json(kind, v) for (name, kind), v in zip(shape, values)}
    return cls(**kw)


def instr_to_json(instr) -> List[Any]:
    return [instr.mnemonic, [operand_to_json(o) for o in instr.operands]]


def instr_from_json(fname: str, j) -> Any:
    mn, vals = j
    for c in flavour_classes(fname):
        if c.mnemonic == mn:
            # NB: with duplicate mnemonics the first wins; C01 checks there are none
            return build(c, vals)
    raise HarnessError(f"no instruction {mn} in flavour {fname}")


def instr_from_json_cls(fname: str, clsname: str, vals) -> Any:
    c = class_by_name(fname, clsname)
    return build(c, vals)


@functools.lru_cache(maxsize=None)
def class_by_name(fname: str, clsname: str):
    for c in flavour_classes(fname):
        if c.__name__ == clsname:
            return c
    raise HarnessError(f"no class {clsname} in flavour {fname}")


# ------------------------------------------------------------------ strategies

I32_MIN, I32_MAX = -(2**31), 2**31 - 1
_U8_B = [0, 1, 2, 127, 128, 254, 255]
_I32_B = [0, 1, -1, 2, 127, 128, 255, 256, 65535, 65536, I32_MAX, I32_MIN, I32_MAX - 1, I32_MIN + 1, -256, 2**24]

st_u8 = st.sampled_from(_U8_B) | st.integers(0, 255)
st_i32 = st.sampled_from(_I32_B) | st.integers(I32_MIN, I32_MAX) | st.integers(-300, 300)
st_reg = st.builds(lambda b, i: f"{b}{i}", st.sampled_from("RCQM"), st.integers(0, 15))


def st_operand(kind: str):
    if kind == "reg":
        return st_reg
    if kind == "u8":
        return st_u8
    if kind == "i32":
        return st_i32
    if kind == "addr":
        return st.builds(lambda a: {"addr": a}, st_i32)
    if kind == "entry":
        return st.builds(lambda a, i: {"addr": a, "idx": i}, st_i32, st_reg)
    if kind == "slice":
        return st.builds(lambda a, s, e: {"addr": a, "start": s, "stop": e}, st_i32, st_reg, st_reg)
    raise HarnessError(kind)


def st_instr_of(cls):
    """Strategy of JSON forms [classname, mnemonic, values] for one class."""
    shape = shape_of(cls)
    return st.tuples(*[st_operand(k) for _, k in shape]).map(lambda vals: [cls.__name__, cls.mnemonic, list(vals)])


@functools.lru_cache(maxsize=None)
def st_instr(fname: str):
    classes = flavour_classes(fname)
    return st.one_of([st_instr_of(c) for c in classes])


def st_subroutine(fname: str, max_len: int = 40):
    return st.fixed_dictionaries(
        {
            "flavour": st.just(fname),
            "app_id": st.sampled_from([0, 1, 255, 256, 65535]) | st.integers(0, 65535),
            "version": st.tuples(st_u8, st_u8).map(list),
            "instrs": st.lists(st_instr(fname), min_size=0, max_size=max_len),
        }
    )


def build_subroutine(j):
    from netqasm.lang.subroutine import Subroutine

    instrs = [instr_from_json_cls(j["flavour"], c, v) for c, _m, v in j["instrs"]]
    return Subroutine(instructions=instrs, netqasm_version=tuple(j["version"]), app_id=j["app_id"])


def boundary_hit(kind: str, v: Any) -> bool:
    if kind == "u8":
        return v in (0, 255)
    if kind == "i32":
        return v in (I32_MIN, I32_MAX)
    if kind == "reg":
        return v[1:] in ("0", "15")
    if kind == "addr":
        return v["addr"] in (I32_MIN, I32_MAX)
    if kind in ("entry", "slice"):
        return v["addr"] in (I32_MIN, I32_MAX)
    return False
