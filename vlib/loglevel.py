"""Run a block at a NetQASM log level (the runner silences logging for the rest of the run); log output goes nowhere."""
from __future__ import annotations

import contextlib
import io
import logging


@contextlib.contextmanager
def log_level(level):
    if level is None:
        yield
        return
    from netqasm.logging.glob import get_netqasm_logger

    lg = get_netqasm_logger()
    old = lg.level
    swapped = [(h, h.setStream(io.StringIO())) for h in lg.handlers if isinstance(h, logging.StreamHandler)]
    lg.setLevel(level)
    was_disabled = logging.root.manager.disable
    logging.disable(logging.NOTSET)
    try:
        yield
    finally:
        logging.disable(was_disabled)
        lg.setLevel(old)
        for h, stream in swapped:
            if stream is not None:
                h.setStream(stream)
