"""In-process back end for SDK-level properties: loop-back connection -> controller -> executor.

Only what the package leaves abstract is supplied here (gate application, measurement, waiting,
deferral of unhandleable responses, node id); everything else is the repository's own code.
"""
from __future__ import annotations

import copy
from types import GeneratorType
from typing import Any, Callable, Dict, List, Optional

import numpy as np

from netqasm.backend.executor import Executor
from netqasm.backend.messages import deserialize_host_msg
from netqasm.backend.network_stack import BaseNetworkStack
from netqasm.backend.qnodeos import QNodeController
from netqasm.lang.instr import core
from netqasm.sdk.connection import BaseNetQASMConnection, DebugConnection, DebugNetworkInfo
from netqasm.sdk.shared_memory import SharedMemoryManager

from . import quantum as qm


class StepBound(Exception):
    pass


class WouldBlock(Exception):
    """a wait_* instruction was reached and nothing can be delivered any more"""


def reset_globals() -> None:
    from netqasm.runtime.settings import set_is_using_hardware

    SharedMemoryManager.reset_memories()
    BaseNetQASMConnection._app_ids.clear()
    BaseNetQASMConnection._app_names.clear()
    DebugConnection.node_ids = {}
    Executor._INSTR_LOGGERS.clear()
    set_is_using_hardware(False)


class TraceExecutor(Executor):
    """Base Executor + tracing.  Quantum instructions are recorded as events (no state vector);
    measurement outcomes come from a script."""

    STRICT = True  # resolve every addressed virtual qubit through the unit module

    def __init__(self, *a, **k):
        super().__init__(*a, **k)
        self._node_id_value = 0
        self.pc_trace: List[int] = []  # of the subroutine being executed
        self.events: List[Any] = []
        self.outcomes: List[int] = []  # scripted measurement outcomes (consumed front first)
        self.outcome_log: List[int] = []
        self.step_bound: Optional[int] = None
        self.steps = 0
        self.ret_log: List[Any] = []
        self.wait_hook: Optional[Callable[[], None]] = None
        self.between_hook: Optional[Callable[[], None]] = None
        self.executed: List[str] = []  # mnemonics in execution order

    @property
    def node_id(self) -> int:
        return self._node_id_value

    # -- instrumentation around every instruction
    def _execute_command(self, subroutine_id, command):
        pc = self._program_counters[subroutine_id]
        if self.step_bound is not None and self.steps >= self.step_bound:
            raise StepBound()
        self.steps += 1
        self.pc_trace.append(pc)
        self.executed.append(command.mnemonic)
        if self.between_hook is not None:
            self.between_hook()
        if isinstance(command, core.MeasBasisInstruction):
            self._meas_basis(subroutine_id, command)
            self._program_counters[subroutine_id] += 1
        elif isinstance(command, core.BreakpointInstruction):
            self.events.append(("breakpoint", command.action.value, command.role.value))
            self._program_counters[subroutine_id] += 1
        else:
            yield from super()._execute_command(subroutine_id, command)
        if command.mnemonic in ("qalloc", "qfree"):
            app_id = self._get_app_id(subroutine_id)
            self.events.append((command.mnemonic, self._get_register(app_id, command.reg)))
        if command.mnemonic == "ret_reg":
            app_id = self._get_app_id(subroutine_id)
            self.ret_log.append(("reg", str(command.reg), self._shared_memories[app_id].get_register(command.reg)))
        elif command.mnemonic == "ret_arr":
            app_id = self._get_app_id(subroutine_id)
            addr = command.address.address
            self.ret_log.append(("arr", addr, list(self._shared_memories[app_id]._get_array(addr))))
        # responses that could not be handled earlier are retried after every instruction
        if self._pending_epr_responses:
            self._handle_pending_epr_responses()

    def _handle_command_exception(self, exc, prog_counter, traceback_str):
        if isinstance(exc, (StepBound, WouldBlock)) or exc.__class__.__name__ == "Failure":
            raise exc
        super()._handle_command_exception(exc, prog_counter, traceback_str)

    # -- abstract parts
    def _pos(self, subroutine_id, address):
        if self.STRICT:
            return self._get_position(subroutine_id=subroutine_id, address=address)
        return None

    def _do_single_qubit_instr(self, instr, subroutine_id, address):
        self._pos(subroutine_id, address)
        self.events.append((instr.mnemonic, address))

    def _do_single_qubit_rotation(self, instr, subroutine_id, address, angle):
        self._pos(subroutine_id, address)
        self.events.append((instr.mnemonic, address, instr.angle_num.value, instr.angle_denom.value))

    def _do_controlled_qubit_rotation(self, instr, subroutine_id, address1, address2, angle):
        self._pos(subroutine_id, address1)
        self._pos(subroutine_id, address2)
        self.events.append((instr.mnemonic, address1, address2, instr.angle_num.value, instr.angle_denom.value))

    def _do_two_qubit_instr(self, instr, subroutine_id, address1, address2):
        self._pos(subroutine_id, address1)
        self._pos(subroutine_id, address2)
        self.events.append((instr.mnemonic, address1, address2))

    def _next_outcome(self) -> Optional[int]:
        return self.outcomes.pop(0) if self.outcomes else None

    def _do_meas(self, subroutine_id, q_address):
        self._pos(subroutine_id, q_address)
        m = self._next_outcome()
        m = 0 if m is None else m
        self.outcome_log.append(m)
        self.events.append(("meas", q_address, m))
        return m

    def _meas_basis(self, subroutine_id, instr):
        app_id = self._get_app_id(subroutine_id)
        q_address = self._get_register(app_id, instr.qreg)
        self._pos(subroutine_id, q_address)
        m = self._next_outcome()
        m = 0 if m is None else m
        self.outcome_log.append(m)
        self.events.append(("meas_basis", q_address, instr.imm0.value, instr.imm1.value, instr.imm2.value, instr.imm3.value, m))
        self._set_register(app_id, instr.creg, m)

    WAITING = "waiting"

    def _do_wait(self):
        if getattr(self, "yield_on_wait", False):
            # cooperative mode: hand control back to whoever drives execute_subroutine (several subroutines may be
            # suspended at once)
            def once():
                yield self.WAITING

            return once()
        if self.wait_hook is None:
            raise WouldBlock("wait with no responder")
        self.wait_hook()
        if self._pending_epr_responses:
            self._handle_pending_epr_responses()

    def _wait_to_handle_epr_responses(self):
        # documented subclassing point: defer; pending responses are retried after each instruction
        return None

    def _reserve_physical_qubit(self, physical_address):
        return None

    def _clear_phys_qubit_in_memory(self, physical_address):
        return None


class StateVectorExecutor(TraceExecutor):
    """TraceExecutor + numpy state vector.  Qubits are labelled by physical id; the network stack
    may add remote partner qubits under other labels."""

    def __init__(self, *a, **k):
        super().__init__(*a, **k)
        self.sv = qm.StateVector()
        self.nv_semantics = False  # informational
        self.before_remove_hook: Optional[Callable[[int], None]] = None
        self.before_measure_hook: Optional[Callable[[int], None]] = None
        self.crot_controls: List[Any] = []  # (control, target) virtual ids of every executed controlled rotation

    def _reserve_physical_qubit(self, physical_address):
        if physical_address not in self.sv.labels:
            self.sv.add(physical_address)
        return None

    def _clear_phys_qubit_in_memory(self, physical_address):
        if physical_address in self.sv.labels:
            if self.before_remove_hook is not None:
                self.before_remove_hook(physical_address)
            self.sv.remove(physical_address)
        return None

    def _do_single_qubit_instr(self, instr, subroutine_id, address):
        p = self._get_position(subroutine_id=subroutine_id, address=address)
        self.events.append((instr.mnemonic, address))
        if isinstance(instr, core.InitInstruction):
            self.sv.measure(p, 0)
            if self.sv.prob1(p) > 0.5:
                self.sv.apply(qm.X, [p])
            return
        self.sv.apply(qm.NAMED[instr.mnemonic], [p])

    def _do_single_qubit_rotation(self, instr, subroutine_id, address, angle):
        p = self._get_position(subroutine_id=subroutine_id, address=address)
        self.events.append((instr.mnemonic, address, instr.angle_num.value, instr.angle_denom.value))
        self.sv.apply(qm.rot(instr.mnemonic[-1], qm.angle(instr.angle_num.value, instr.angle_denom.value)), [p])

    def _do_controlled_qubit_rotation(self, instr, subroutine_id, address1, address2, angle):
        p1 = self._get_position(subroutine_id=subroutine_id, address=address1)
        p2 = self._get_position(subroutine_id=subroutine_id, address=address2)
        self.events.append((instr.mnemonic, address1, address2, instr.angle_num.value, instr.angle_denom.value))
        self.crot_controls.append((address1, address2))
        self.sv.apply(qm.crot(instr.mnemonic[-1], qm.angle(instr.angle_num.value, instr.angle_denom.value)), [p1, p2])

    def _do_two_qubit_instr(self, instr, subroutine_id, address1, address2):
        p1 = self._get_position(subroutine_id=subroutine_id, address=address1)
        p2 = self._get_position(subroutine_id=subroutine_id, address=address2)
        self.events.append((instr.mnemonic, address1, address2))
        U = {"cnot": qm.CNOT, "cphase": qm.CZ, "mov": qm.SWAP}[instr.mnemonic]
        self.sv.apply(U, [p1, p2])

    def _measure_phys(self, p) -> int:
        if self.before_measure_hook is not None:
            self.before_measure_hook(p)
        want = self._next_outcome()
        m = self.sv.measure(p, want)
        self.outcome_log.append(m)
        return m

    def _do_meas(self, subroutine_id, q_address):
        p = self._get_position(subroutine_id=subroutine_id, address=q_address)
        m = self._measure_phys(p)
        self.events.append(("meas", q_address, m))
        return m

    def _meas_basis(self, subroutine_id, instr):
        app_id = self._get_app_id(subroutine_id)
        q_address = self._get_register(app_id, instr.qreg)
        p = self._get_position(subroutine_id=subroutine_id, address=q_address)
        d = instr.imm3.value
        self.sv.apply(qm.rot("x", qm.angle(instr.imm0.value, d)), [p])
        self.sv.apply(qm.rot("y", qm.angle(instr.imm1.value, d)), [p])
        self.sv.apply(qm.rot("x", qm.angle(instr.imm2.value, d)), [p])
        m = self._measure_phys(p)
        self.events.append(("meas_basis", q_address, instr.imm0.value, instr.imm1.value, instr.imm2.value, d, m))
        self._set_register(app_id, instr.creg, m)


_CTRL_CACHE: Dict[type, type] = {}


def controller_class(executor_cls) -> type:
    if executor_cls not in _CTRL_CACHE:

        class _Ctrl(QNodeController):
            @classmethod
            def _get_executor_class(cls, flavour=None):
                return executor_cls

            def stop(self):
                pass

            def _mark_message_finished(self, msg_id, msg):
                pass

        _Ctrl.__name__ = f"SimController_{executor_cls.__name__}"
        _CTRL_CACHE[executor_cls] = _Ctrl
    return _CTRL_CACHE[executor_cls]


class LoopConnection(BaseNetQASMConnection):
    """Connection whose messages go, through real serialisation, straight into a controller."""

    def __init__(self, app_name, ctrl, **kw):
        self.ctrl = ctrl
        self.n_msg = 0
        self.raw_messages: List[bytes] = []
        super().__init__(app_name, node_name=ctrl.name, **kw)

    def _get_network_info(self):
        return DebugNetworkInfo

    def _commit_serialized_message(self, raw_msg, block=True, callback=None):
        self.raw_messages.append(raw_msg)
        msg = deserialize_host_msg(raw_msg)
        self.n_msg += 1
        out = self.ctrl.handle_netqasm_message(self.n_msg, msg)
        if isinstance(out, GeneratorType):
            for _ in out:
                pass

    def sent_subroutines(self, flavour=None):
        from netqasm.lang.parsing import deserialize

        out = []
        for raw in self.raw_messages:
            m = deserialize_host_msg(raw)
            if type(m).__name__ == "SubroutineMessage":
                out.append(deserialize(m.subroutine, flavour=flavour))
        return out


def fresh(
    executor_cls=TraceExecutor,
    app_name: str = "alice",
    flavour=None,
    node_ids: Optional[Dict[str, int]] = None,
    reset: bool = True,
    ctrl=None,
    network_stack_cls=None,
    **conn_kw,
):
    """(controller, connection) on clean global state."""
    if reset:
        reset_globals()
    DebugConnection.node_ids.update(node_ids or {"alice": 0, "bob": 1, "charlie": 2})
    if ctrl is None:
        ctrl = controller_class(executor_cls)(name="node", flavour=flavour)
        ctrl._executor._node_id_value = DebugConnection.node_ids.get(app_name, 0)
        if network_stack_cls is not None:
            ctrl.network_stack = network_stack_cls(ctrl._executor)
    conn = LoopConnection(app_name, ctrl, **conn_kw)
    return ctrl, conn


def read_registers(ex, app_id) -> Dict[str, int]:
    """the application's defined registers, read the way instructions read them (independent of how the executor stores them)"""
    from netqasm.lang.encoding import RegisterName
    from netqasm.lang.operand import Register

    out = {}
    for bank in RegisterName:
        for idx in range(16):
            v = ex._get_register(app_id, Register(bank, idx))
            if v is not None:
                out[f"{bank.name}{idx}"] = v
    return out


def read_shared_registers(shm) -> Dict[str, int]:
    from netqasm.lang.encoding import RegisterName
    from netqasm.lang.operand import Register

    out = {}
    for bank in RegisterName:
        for idx in range(16):
            v = shm.get_register(Register(bank, idx))
            if v is not None:
                out[f"{bank.name}{idx}"] = v
    return out
