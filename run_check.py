#!/venv/bin/python
"""CLI: run_check.py <ID> --tier quick|thorough [--replay FILE]"""
import os, sys
sys.path.insert(0, os.path.dirname(os.path.abspath(__file__)))
from vlib.runner import main
if __name__ == "__main__":
    main()
