#!/usr/bin/env python3
"""Prints the markdown table of seeded changes (DESIGN.md §7.5) from seeded/*/meta.json."""
import glob
import json
import os

rows = []
for mp in sorted(glob.glob(os.path.join(os.path.dirname(os.path.dirname(os.path.abspath(__file__))), "seeded", "*", "meta.json"))):
    m = json.load(open(mp))
    name = os.path.basename(os.path.dirname(mp))
    checks = m["ran"]["checks"]
    verdicts = ", ".join(f"{p} {v['verdict']} ({v['seconds']}s)" for p, v in checks.items())
    sig = next((v["signatures"][0] for v in checks.values() if v.get("signatures")), "")
    sig = sig.split("]")[0].lstrip("[ ") if sig else ""
    rows.append((name, m["property"], m.get("summary", ""), m.get("needs", ""), verdicts, sig))
print("| seed | property | change | needs to manifest | verdict (tier quick unless noted) | first signature |")
print("|---|---|---|---|---|---|")
for r in rows:
    print("| " + " | ".join(str(x).replace("|", "/") for x in r) + " |")
