#!/usr/bin/env python3
"""Prints the markdown tables of seeded changes (DESIGN.md §7.5) from seeded/*/meta.json.

  tools/seed_table.py [r1|...|r11]      (default: both rounds, one table each, plus counts)
"""
import glob
import json
import os
import sys

ROOT = os.path.dirname(os.path.dirname(os.path.abspath(__file__)))


def rows(rnd):
    out = []
    for mp in sorted(glob.glob(os.path.join(ROOT, "seeded", "*", "meta.json"))):
        name = os.path.basename(os.path.dirname(mp))
        this = "r11" if "-r11" in name else ("r10" if "-r10" in name else ("r9" if "-r9" in name else ("r8" if "-r8" in name else ("r7" if "-r7" in name else ("r6" if "-r6" in name else ("r5" if "-r5" in name else ("r4" if "-r4" in name else ("r3" if "-r3" in name else ("r2" if "-r2" in name else "r1")))))))))
        if this != rnd:
            continue
        m = json.load(open(mp))
        checks = m["ran"]["checks"]
        verdicts = ", ".join(f"{p} {v['verdict']}" for p, v in checks.items())
        if m.get("benign_since"):
            verdicts += f" (no longer a violation since repository fix {m['benign_since']})"
        out.append((name, m.get("summary", ""), m.get("needs", ""), verdicts, m.get("history", "")))
    return out


def table(rnd):
    rs = rows(rnd)
    print("| seed | change | needs to manifest | verdict now (quick tier) | history |")
    print("|---|---|---|---|---|")
    for r in rs:
        print("| " + " | ".join(str(x).replace("|", "/").replace("\n", " ") for x in r) + " |")
    n = len(rs)
    start = sum(1 for r in rs if r[4].startswith("caught from the start"))
    err = sum(1 for r in rs if r[4].startswith("harness error"))
    missed = sum(1 for r in rs if r[4].startswith("missed at first") or "missed it at first" in r[4] or r[4].startswith("missed"))
    now = sum(1 for r in rs if "CAUGHT" in r[3])
    benign = sum(1 for r in rs if "no longer a violation" in r[3])
    print(f"\n<!-- {rnd}: {n} changes; caught from the start {start}; harness error at first {err}; missed at first {missed}; caught now {now}; no longer violations {benign} -->")


if __name__ == "__main__":
    which = sys.argv[1:] or ["r1", "r2", "r3", "r4", "r5", "r6", "r7", "r8", "r9", "r10", "r11"]
    for w in which:
        table(w)
        print()
