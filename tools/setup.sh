#!/bin/sh
# Offline setup: make sure hypothesis is importable in /venv (install from the local wheelhouse if not),
# then verify the imports the checks need.  Nothing is fetched from a network.
set -e
cd "$(dirname "$0")/.."
if ! /venv/bin/python -c "import hypothesis" 2>/dev/null; then
  PIP_NO_INDEX=1 /venv/bin/pip install --no-index --find-links /opt/veriftools/wheels hypothesis
fi
PYTHONPATH=/repo /venv/bin/python -c "import hypothesis, numpy, scipy, netqasm; print('setup ok: hypothesis', hypothesis.__version__, 'netqasm', netqasm.__file__)"
mkdir -p evidence replays
