#!/usr/bin/env python3
"""Confirm a seeded change and run checks against it (development tool, not a registered check).

  tools/seed_eval.py <seed_dir> <PROP>[,<PROP>...] [--tier quick] [--keep <name>]

<seed_dir> holds patch.diff, demo.py (exit 0 + PASS on the clean tree, exit 1 + FAIL with the patch), notes.md.
Steps: scratch copy of /repo (outside /repo and /verif) -> demo on the clean copy -> apply patch -> repo test-suite ->
demo on the patched copy -> the listed checks with NETQASM_REPO pointing at the patched copy.  With --keep the
seed is copied to /verif/seeded/<name>/ together with a meta.json recording what was run.
"""
import json
import os
import shutil
import subprocess
import sys
import tempfile
import time


def sh(cmd, **kw):
    return subprocess.run(cmd, shell=True, capture_output=True, text=True, **kw)


def main():
    a = sys.argv[1:]
    seed = os.path.abspath(a[0])
    props = a[1].split(",")
    tier = a[a.index("--tier") + 1] if "--tier" in a else "quick"
    keep = a[a.index("--keep") + 1] if "--keep" in a else None
    summary = a[a.index("--summary") + 1] if "--summary" in a else ""
    needs = a[a.index("--needs") + 1] if "--needs" in a else "see notes.md"
    tmp = tempfile.mkdtemp(prefix="nqseed-")
    res = {"seed": seed, "props": props, "tier": tier}
    try:
        repo = tmp + "/repo"
        subprocess.check_call(["rsync", "-a", "--exclude", ".git", "--exclude", "docs", "/repo/", repo + "/"])
        env = dict(os.environ, PYTHONPATH=repo)
        r = sh(f"/venv/bin/python {seed}/demo.py", env=env, cwd=tmp)
        res["demo_clean"] = {"exit": r.returncode, "tail": (r.stdout + r.stderr).strip().splitlines()[-2:]}
        r = sh(f"git apply --unsafe-paths --directory {repo} {seed}/patch.diff", cwd="/")
        if r.returncode != 0:
            r = sh(f"cd {repo} && patch -p1 < {seed}/patch.diff")
        res["patch_applies"] = r.returncode == 0
        if r.returncode != 0:
            res["patch_error"] = (r.stdout + r.stderr)[-400:]
            print(json.dumps(res, indent=1))
            return 3
        r = sh(f"cd {repo} && /venv/bin/python -m pytest -q -p no:cacheprovider --timeout=900 --continue-on-collection-errors tests 2>&1 | tail -1", env=env)
        res["tests_patched"] = r.stdout.strip()
        r = sh(f"/venv/bin/python {seed}/demo.py", env=env, cwd=tmp)
        res["demo_patched"] = {"exit": r.returncode, "tail": (r.stdout + r.stderr).strip().splitlines()[-2:]}
        res["confirmed"] = res["demo_clean"]["exit"] == 0 and res["demo_patched"]["exit"] != 0 and res["tests_patched"].startswith("171 passed")
        before = a[a.index("--before") + 1] if "--before" in a else None
        if before:
            # the same checks as they stood in an earlier snapshot of /verif (a scratch checkout outside /verif)
            res["checks_before"] = {"harness_commit": sh(f"git -C {before} log --format=%h -1").stdout.strip()}
            benv = dict(os.environ, NETQASM_REPO=repo, VERIF_EVIDENCE_DIR=tmp + "/evb", VERIF_REPLAY_DIR=tmp + "/rpb")
            for p in props:
                r = subprocess.run(["/venv/bin/python", before + "/run_check.py", p, "--tier", tier], capture_output=True, text=True, env=benv, cwd=before)
                res["checks_before"][p] = {0: "MISSED", 1: "CAUGHT"}.get(r.returncode, "ERROR")
        res["checks"] = {}
        cenv = dict(os.environ, NETQASM_REPO=repo, VERIF_EVIDENCE_DIR=tmp + "/ev", VERIF_REPLAY_DIR=tmp + "/rp")
        for p in props:
            t = time.time()
            r = subprocess.run(["/venv/bin/python", "/verif/run_check.py", p, "--tier", tier], capture_output=True, text=True, env=cenv, cwd="/verif")
            sigs = [l.strip()[:260] for l in r.stdout.splitlines() if l.startswith("  [")]
            res["checks"][p] = {"exit": r.returncode, "verdict": {0: "MISSED", 1: "CAUGHT"}.get(r.returncode, "ERROR"), "seconds": round(time.time() - t), "signatures": sigs[:4]}
            if r.returncode == 2:
                res["checks"][p]["error"] = (r.stdout + r.stderr)[-600:]
        print(json.dumps(res, indent=1))
        if keep:
            dst = os.path.join("/verif/seeded", keep)
            os.makedirs(dst, exist_ok=True)
            for f in ("patch.diff", "demo.py", "notes.md"):
                if os.path.exists(os.path.join(seed, f)):
                    shutil.copy(os.path.join(seed, f), os.path.join(dst, f))
            meta = {
                "property": props[0],
                "confirmed": res["confirmed"],
                "summary": summary,
                "needs": needs,
                "ran": {
                    "demo_clean": res["demo_clean"],
                    "tests_with_patch": res["tests_patched"],
                    "demo_with_patch": res["demo_patched"],
                    "checks": res["checks"],
                    "repo_commit": sh("git -C /repo log --format=%h -1").stdout.strip(),
                    "tier": tier,
                },
            }
            if before:
                meta["ran"]["checks_before_strengthening"] = res["checks_before"]
                b = {k: v for k, v in res["checks_before"].items() if k != "harness_commit"}
                now = {k: v["verdict"] for k, v in res["checks"].items()}
                if any(v == "CAUGHT" for v in b.values()):
                    meta["history"] = "caught from the start (" + ", ".join(k for k, v in b.items() if v == "CAUGHT") + ")"
                elif any(v == "CAUGHT" for v in now.values()):
                    meta["history"] = ("harness error at first; " if any(v == "ERROR" for v in b.values()) else "missed at first; ") + "caught after strengthening"
                else:
                    meta["history"] = "missed"
            with open(os.path.join(dst, "meta.json"), "w") as fh:
                json.dump(meta, fh, indent=1)
        return 0
    finally:
        shutil.rmtree(tmp, ignore_errors=True)


if __name__ == "__main__":
    sys.exit(main())
