#!/usr/bin/env python3
"""Re-run every kept seeded change against the check(s) that are recorded as catching it, at a given VERIF_SEED
(development tool, not a registered check).  Prints the ones that are not caught at that seed.

  tools/seed_matrix.py <VERIF_SEED> [name-prefix]
"""
import glob
import json
import os
import subprocess
import sys
import tempfile
import shutil
from concurrent.futures import ThreadPoolExecutor

ROOT = os.path.dirname(os.path.dirname(os.path.abspath(__file__)))


def run(name, seed):
    d = os.path.join(ROOT, "seeded", name)
    m = json.load(open(os.path.join(d, "meta.json")))
    props = [p for p, v in m["ran"]["checks"].items() if v["verdict"] == "CAUGHT"]
    if not props:
        return name, "SKIP (recorded as not caught)", []
    tmp = tempfile.mkdtemp(prefix="nqmx-")
    try:
        repo = tmp + "/repo"
        subprocess.check_call(["rsync", "-a", "--exclude", ".git", "--exclude", "docs", "/repo/", repo + "/"])
        r = subprocess.run(f"cd {repo} && patch -p1 -s < {d}/patch.diff", shell=True, capture_output=True, text=True)
        if r.returncode != 0:
            return name, "PATCH-FAILS", []
        env = dict(os.environ, NETQASM_REPO=repo, VERIF_SEED=str(seed), VERIF_EVIDENCE_DIR=tmp + "/ev", VERIF_REPLAY_DIR=tmp + "/rp")
        out = []
        for p in props:
            r = subprocess.run(["/venv/bin/python", os.path.join(ROOT, "run_check.py"), p], capture_output=True, text=True, env=env, cwd=ROOT)
            out.append((p, {0: "MISSED", 1: "CAUGHT"}.get(r.returncode, "ERROR")))
        verdict = "CAUGHT" if any(v == "CAUGHT" for _p, v in out) else "NOT-CAUGHT"
        return name, verdict, out
    finally:
        shutil.rmtree(tmp, ignore_errors=True)


def main():
    seed = int(sys.argv[1])
    prefix = sys.argv[2] if len(sys.argv) > 2 else ""
    names = sorted(os.path.basename(os.path.dirname(p)) for p in glob.glob(os.path.join(ROOT, "seeded", prefix + "*", "meta.json")))
    bad = 0
    with ThreadPoolExecutor(max_workers=6) as ex:
        for name, verdict, out in ex.map(lambda n: run(n, seed), names):
            if verdict != "CAUGHT":
                bad += 1
                print(name, verdict, out, flush=True)
    print(f"seed {seed}: {len(names)} seeded changes, {bad} not caught at this seed")


if __name__ == "__main__":
    main()
