#!/usr/bin/env python3
"""Regenerates MANIFEST.json from the table below; a property is claimed iff checks/cNN.py exists."""
import json
import os

VERIF = os.path.dirname(os.path.dirname(os.path.abspath(__file__)))

CHECKS = {
    "C01": dict(
        technique="property-based round-trip testing (Hypothesis) + exhaustive table enumeration + byte-level decode fuzzing",
        category="exploration",
        text="Generated subroutines of every instruction class of every flavour (introspected), boundary-biased operands, are "
        "round-tripped through the binary codec and compared including class identity; opcode/mnemonic tables are enumerated "
        "completely for injectivity; random byte strings must be fixed points of decode.encode.decode. Search, not proof: "
        "the finite table part is complete, operand space is sampled with boundaries.",
        note="Trusts dataclass equality of instruction objects and the harness's operand-shape table (an unknown shape is a harness error).",
        ref="3.1",
    ),
    "C02": dict(
        technique="differential testing against an independent struct-based reference encoder; exhaustive walking-ones enumeration + Hypothesis",
        category="exploration",
        text="Every class x every field x every bit is distinguished by an enumerated valuation and compared byte-for-byte with a "
        "reference encoder written from the format description; reference bytes are also decoded by the repo decoder. "
        "Catches consistent encoder+decoder changes that round-trip tests cannot see.",
        note="The frozen opcode table in vlib/refenc.py stands for the published instruction table.",
        ref="3.2",
    ),
    "C03": dict(
        technique="differential testing: generated source programs interpreted directly vs. assembled subroutine on a reference interpreter (Hypothesis)",
        category="exploration",
        text="Programs generated as ASTs with labels, macros, bracket arguments and literals in every position are rendered to text and "
        "IR, assembled by the repo and compared (behaviour + static structure) with a direct interpretation of the source.",
        note="Trusts the reference interpreter vlib/refinterp.py (itself cross-checked against the repo executor in C04).",
        ref="3.3",
    ),
    "C04": dict(
        technique="differential testing of the base Executor against an independent reference interpreter over generated unstructured programs (Hypothesis)",
        category="exploration",
        text="Generated multi-subroutine programs with arbitrary jump targets run on the repo Executor (trace-instrumented subclass) and on a "
        "reference interpreter; PC trace, registers, arrays, shared memory, qubit bookkeeping and fault line are compared.",
        note="Sound-first domain: registers written before read, non-negative indices (DESIGN 3.4).",
        ref="3.4",
    ),
    "C05": dict(
        technique="differential testing: generated SDK host programs run through the full SDK->controller pipeline vs. a direct evaluator (Hypothesis)",
        category="exploration",
        text="Host programs from a grammar over the SDK constructs are executed through the real SDK, serialisation and the repo Executor on a "
        "loop-back controller and compared event-by-event and value-by-value with direct Python evaluation of the same AST.",
        note="Controller side = repo Executor + harness subclass for the abstract parts; measurement outcomes scripted.",
        ref="3.5",
    ),
    "C06": dict(
        technique="differential testing: precompile/instantiate/commit flow vs. direct flush flow on twin controllers (Hypothesis)",
        category="exploration",
        text="The same generated program is run once via compile()+instantiate()+commit_subroutine() with template values and once with "
        "concrete values and flush(); controller traces, arrays and host-visible values are compared after every later flush.",
        note="Same harness back end as C05.",
        ref="3.6",
    ),
    "C07": dict(
        technique="exhaustive enumeration of gates/placements/angles with an independent numpy operator semantics; Hypothesis for sampled angles in quick tier",
        category="exploration",
        text="The unitary of each emitted NV sequence is computed with independent gate algebra and compared (up to global phase) with "
        "the vanilla gate; thorough enumerates all 2x3x256x256 rotations; published to_matrix() of every instruction is compared too.",
        note="Conventions: R_a(t)=exp(-i t sigma_a/2); crot = +t on |0>, -t on |1> control; axis from mnemonic.",
        ref="3.7",
    ),
    "C08": dict(
        technique="differential execution: vanilla subroutine vs. NV-transpiled subroutine on a state-vector executor with forced measurement scripts (Hypothesis)",
        category="exploration",
        text="Generated SDK-style vanilla subroutines with loops/branches/end labels are transpiled; original and result run from the same "
        "state under the same measurement script; classical memory, quantum state (global phase free) and non-gate order compared.",
        note="State-vector semantics from vlib/quantum.py; the repo Executor runs both sides.",
        ref="3.8",
    ),
    "C09": dict(
        technique="stateful model-based testing (Hypothesis RuleBasedStateMachine) of SDK qubit lifecycle against the controller's unit module",
        category="exploration",
        text="Histories of qubit creation, gates, measurement, free, EPR operations and flushes within the qubit budget are run through the "
        "pipeline on a strict executor; no allocation fault may occur and active_qubits must equal the controller's allocated set.",
        note="Scripted network stack answers EPR requests; budget preconditions make all histories in-domain.",
        ref="3.9",
    ),
    "C10": dict(
        technique="exhaustive/sampled enumeration of Bell-state tuples and API variants with a state-vector oracle including modelled remote partners",
        category="exploration",
        text="For every Bell-state tuple the link may deliver, the joint state of each kept qubit with its modelled partner must be Phi+ "
        "after the SDK's corrections (or unchanged with corrections off); measure-directly statistics are compared with Phi+ statistics.",
        note="Bell numbering from qlink_compat.BellState; partner qubits modelled inside the harness state vector.",
        ref="3.10",
    ),
    "C11": dict(
        technique="property-based testing with a recording network stack and scripted responses (Hypothesis), field-by-field comparison",
        category="exploration",
        text="Generated EPR create/recv calls over all parameters; the LinkLayerCreate seen by the stack and the result handles on the host "
        "are compared field by field with what was passed/delivered, and the repo's link-layer conversion must accept the request.",
        note="Defaults taken from the API documentation.",
        ref="3.11",
    ),
    "C12": dict(
        technique="schedule-exploring property-based testing: harness-owned interleaving of instruction steps and response deliveries (Hypothesis + bounded enumeration) against a FIFO reference model",
        category="exploration",
        text="Scenarios with several outstanding requests are executed under generated (and, thorough, exhaustively enumerated) interleavings; "
        "result arrays, qubit mappings and queues are compared with a reference matching model.",
        note="Deferral of unhandleable responses is supplied by the harness subclass (documented subclassing point).",
        ref="3.12",
    ),
    "C13": dict(
        technique="stateful model-based testing (Hypothesis RuleBasedStateMachine) + bounded exhaustive history enumeration with state hashing",
        category="exploration",
        text="Histories of app registration/stop, subroutines, allocations and keep responses over up to three apps; invariants on joint "
        "injectivity of qubit maps, used-set exactness, isolation and re-registration are checked after every step.",
        note="Reference model of per-application state kept by the harness.",
        ref="3.13",
    ),
    "C14": dict(
        technique="property-based long-history testing of the SDK register allocator (Hypothesis), plus the C05 differential oracle at maximum nesting",
        category="exploration",
        text="Long sequences of completed SDK operations with periodic flushes must keep compiling; the active-register set must return to "
        "the live handles' registers whenever no operation is open.",
        note="Register budget R0..R15 as in the SDK.",
        ref="3.14",
    ),
    "C15": dict(
        technique="property-based round-trip testing of all message classes (Hypothesis)",
        category="exploration",
        text="Every host->controller and controller->host message class with fields over their declared widths and arrays with arbitrary "
        "undefined patterns is serialised and deserialised; class and every field must come back equal.",
        note="Field widths from the ctypes declarations.",
        ref="3.15",
    ),
    "C16": dict(
        technique="property-based negative testing: one out-of-range operand per case, oracle = raises or decodes equal (Hypothesis + enumeration)",
        category="exploration",
        text="Every operand kind in every instruction shape gets values just/far outside its range via direct construction, the text "
        "assembler and the SDK; encoding must raise or the bytes must decode to an equal program.",
        note="",
        ref="3.16",
    ),
    "C17": dict(
        technique="property-based round-trip testing print->parse (Hypothesis)",
        category="exploration",
        text="str(instr) of generated instructions of every class/flavour is parsed back with the same flavour and compared; text->binary->text "
        "fixed point for subroutines.",
        note="",
        ref="3.17",
    ),
    "C18": dict(
        technique="deterministic schedule fuzzing of real threads (sys.settrace gating, virtual clock) with a sent/received sequence oracle (Hypothesis + bounded preemption enumeration)",
        category="exploration",
        text="Endpoint scripts run as real threads under a harness-owned line-granular scheduler; every explored schedule must deliver "
        "each message once and in order per direction and socket id.",
        note="Scheduler replaces the hub lock, sleep and timer; deadlocks/step bounds are inconclusive, not violations.",
        ref="3.18",
    ),
    "C19": dict(
        technique="property-based testing over floats with an exact rational oracle (Hypothesis)",
        category="exploration",
        text="Generated angles/tolerances; every step must be encodable and the exact sum must match the angle mod 2pi within the tolerance.",
        note="|angle| <= 1000*2pi with an |angle|*2^-50 allowance.",
        ref="3.19",
    ),
    "C20": dict(
        technique="full-pipeline state-vector testing with Choi-state inputs, exhaustive Pauli strings and Hypothesis-generated states",
        category="exploration",
        text="Toolbox circuits run through SDK->controller on a state-vector executor; resulting unitaries/states/outcomes are compared "
        "with the documented operators.",
        note="",
        ref="3.20",
    ),
}

PENDING_REASON = "check not built yet (planned in DESIGN.md section {ref}); not claimed until it runs"


# what round 11 (DESIGN.md §7.5) added to the explored domain of each check; appended to the level text
EXTRA = {
    "C01": " Also: every decoding result is edited in place and the same bytes decoded again (reference rebuilt from the case); all pairs of 8-bit operand positions crossed with 20 special values (quick) / all 256x256 (thorough).",
    "C02": " Also: generated encode/edit/encode histories on one Subroutine object (in-place operand edits, element replacement, setters, instantiate, re-decoding) against the reference encoding of a model kept beside it.",
    "C03": " Also: one program object assembled several times, for several flavours; every result judged by the same oracles and earlier results must not change.",
    "C05": " Also: handles are read on the host through int operators (int(), ==, arithmetic, bool, hash, comparisons) before .value after an entry changed in a later flush.",
    "C06": " Also: one template-value dict object kept by the host for every instantiate() of a connection, template names reused across blocks.",
    "C07": " Also: instances of subclasses of the vanilla gate classes; histories in which returned matrices are edited in place and asked for again; emitted lists edited and the transpilation repeated.",
    "C10": " Also: hardware configurations that are instances of subclasses; recv_measure after earlier requests (also with post routines) on the same socket, with an independent outcome oracle.",
    "C11": " Also: bool-valued response fields, a previous application on the same controller, purpose ids that depend on the remote socket registered by setup_epr_socket.",
    "C12": " Also: two or three subroutines of one application in progress at once (registers shared), wait instructions judged by the entries named at instruction start; responses delivered as instances of subclasses of the qlink 1.0 classes.",
    "C13": " Also: an application stopped and registered again while one of its subroutines is suspended in a wait, then resumed.",
    "C14": " Also: flush windows of 0..16 register-kept measurement outcomes starting with the connection's first subroutine.",
    "C15": " Also: every integer field and array entry carried by bool, int subclasses and numpy integers of every width, arrays as list/tuple/ndarray.",
    "C16": " Also: a valid program (built, decoded, parsed, copied; encoded before or not) whose operand is changed to an unrepresentable value in place or by replacement must still be rejected.",
    "C17": " Also: numpy integer immediates; print/parse/edit-in-place/print histories on instructions and whole subroutines.",
    "C18": " Also: received structured messages overwritten by the receiver and equal messages repeated; callback sockets that inherit recv_callback; a peer that closes and returns while the survivor inspects the connection; a send must not be refused while both ends are open.",
    "C19": " Also: angles as numpy.float64 and float subclasses; SDK programs on NV hardware in which the k-th qubit must receive exactly the steps of the rotations requested on it, on an allocated address.",
    "C20": " Also: angles as int / numpy scalars; qubit lists in any id order reused for a second parity measurement (projective repeatability) and shared between calls of a session.",
}


def main():
    checks = []
    na = []
    for pid, c in CHECKS.items():
        if os.path.exists(os.path.join(VERIF, "checks", pid.lower() + ".py")):
            checks.append(
                {
                    "property_id": pid,
                    "quick_cmd": f"/venv/bin/python run_check.py {pid} --tier quick",
                    "thorough_cmd": f"/venv/bin/python run_check.py {pid} --tier thorough",
                    "evidence_file": f"/verif/evidence/{pid}.json",
                    "replay_cmd_template": f"/venv/bin/python run_check.py {pid} --replay {{path}}",
                    "engine": "pbt",
                    "level_claimed": {"category": c["category"], "text": c["text"] + EXTRA.get(pid, ""), "design_ref": "DESIGN.md §" + c["ref"]},
                    "level_note": c["note"] or "see DESIGN.md",
                    "technique": c["technique"],
                }
            )
        else:
            na.append({"property_id": pid, "reason": PENDING_REASON.format(ref=c["ref"])})
    hooks_commits = []
    hp = os.path.join(VERIF, "hooks_commits.txt")
    if os.path.exists(hp):
        hooks_commits = [l.strip() for l in open(hp) if l.strip()]
    man = {
        "version": 1,
        "setup_cmd": "sh tools/setup.sh",
        "hooks": {
            "guard": "NETQASM_VERIF",
            "enable": "no source hooks are needed: checks subclass the package's abstract back-end classes and import /repo's working tree directly",
            "baseline_off_cmd": "sh tools/baseline.sh",
            "source_commits": hooks_commits,
            "add_only": True,
        },
        "engines": [
            {
                "name": "pbt",
                "path": "run_check.py",
                "serves_properties": [c["property_id"] for c in checks],
                "kind_free_text": "Hypothesis-driven property-based testing / fuzzing harness with reference models (vlib/)",
            }
        ],
        "checks": checks,
        "notes": "All checks: exit 0 held, 1 VIOLATION line + replay file, 2 harness error. Known findings in known_findings.json.",
        "not_applicable": na,
    }
    with open(os.path.join(VERIF, "MANIFEST.json"), "w") as fh:
        json.dump(man, fh, indent=1)
        fh.write("\n")
    print(f"claimed: {[c['property_id'] for c in checks]}")


if __name__ == "__main__":
    main()
