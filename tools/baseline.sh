#!/bin/sh
# Runs the repository's pinned baseline suite (guard off) and prints the summary line.
cd /repo && unset NETQASM_VERIF && /venv/bin/python -m pytest -ra -q -p no:cacheprovider --timeout=900 --continue-on-collection-errors "$@" 2>&1 | tail -3
