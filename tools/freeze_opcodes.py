"""One-off: freeze {flavour: {mnemonic: [opcode, [kinds...]]}} from the tree.  The committed
vlib/opcode_table.json is the reference for C02; regenerate only deliberately."""
import json, sys
sys.path.insert(0, "/repo"); sys.path.insert(1, "/verif")
from vlib import gen_instr as g
out = {}
for f in g.FLAVOURS:
    t = {}
    for c in g.flavour_classes(f):
        t.setdefault(c.mnemonic, []).append([c.id, [k for _, k in g.shape_of(c)]])
    out[f] = t
json.dump(out, sys.stdout, indent=1, sort_keys=True)
