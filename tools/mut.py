#!/usr/bin/env python3
"""Sensitivity helper (development only, not a registered check).

  tools/mut.py C04,C05 netqasm/backend/executor.py 'OLD' 'NEW' [--count N]
  tools/mut.py C04 --patch some.diff

Copies /repo's working tree to a scratch dir under /tmp, applies one textual mutation (exact string
replacement, first occurrence or --count) or a patch, runs the quick checks with NETQASM_REPO pointing at the
copy (evidence/replays redirected to the scratch dir), reports caught / missed, removes the copy.
"""
import os, shutil, subprocess, sys, tempfile, time

def main():
    a = sys.argv[1:]
    props = a[0].split(",")
    tmp = tempfile.mkdtemp(prefix="nqmut-")
    try:
        subprocess.check_call(["rsync", "-a", "--exclude", ".git", "--exclude", "docs", "/repo/", tmp + "/repo/"])
        repo = tmp + "/repo"
        if a[1] == "--patch":
            subprocess.check_call(["git", "apply", "--unsafe-paths", "--directory", repo, os.path.abspath(a[2])], cwd="/")
            rest = a[3:]
        else:
            f = os.path.join(repo, a[1]); old, new = a[2], a[3]; rest = a[4:]
            s = open(f).read()
            cnt = 1
            if "--count" in rest: cnt = int(rest[rest.index("--count") + 1])
            if old not in s:
                print("MUTATION-NOT-APPLICABLE: pattern not found"); return 3
            s = s.replace(old, new, cnt); open(f, "w").write(s)
        tier = "quick"
        env = dict(os.environ, NETQASM_REPO=repo, VERIF_EVIDENCE_DIR=tmp + "/ev", VERIF_REPLAY_DIR=tmp + "/rp")
        if "--tests" in rest:
            r = subprocess.run("cd %s && /venv/bin/python -m pytest -q -p no:cacheprovider --timeout=900 --continue-on-collection-errors -x tests 2>&1 | tail -2" % repo, shell=True, capture_output=True, text=True, env=dict(os.environ, PYTHONPATH=repo))
            print("repo tests on mutant:", r.stdout.strip().splitlines()[-1:])
        rc_all = 0
        for p in props:
            t = time.time()
            r = subprocess.run(["/venv/bin/python", "/verif/run_check.py", p, "--tier", tier], capture_output=True, text=True, env=env, cwd="/verif")
            lines = [l for l in r.stdout.splitlines() if l.startswith(("VIOLATION", "  [", "HARNESS"))]
            print(f"{p}: exit={r.returncode} {'CAUGHT' if r.returncode == 1 else 'MISSED' if r.returncode == 0 else 'ERROR'} ({time.time()-t:.0f}s)")
            for l in lines[:4]: print("   ", l[:300])
            if r.returncode == 2: print(r.stdout[-1500:], r.stderr[-1500:])
    finally:
        shutil.rmtree(tmp, ignore_errors=True)

if __name__ == "__main__":
    sys.exit(main())
