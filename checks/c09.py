"""C09 — SDK and controller agree on which virtual qubits exist.

Stateful model-based testing: histories of qubit operations within the qubit budget are run through the
pipeline; after every flush the connection's active qubits must be exactly the controller's allocated
virtual qubits and no allocation fault may occur.
"""
from __future__ import annotations

import traceback
from typing import Any, Dict, List

from hypothesis import strategies as st
from hypothesis.stateful import RuleBasedStateMachine, initialize, precondition, rule

from vlib.runner import Ctx, Failure

LEVEL = "exploration"
RULE = (
    "Hypothesis RuleBasedStateMachine per configuration (budget 1..5 x {generic, NV hardware} x {no compiler, NV transpiler}); "
    "rules: new qubit, 1-/2-qubit gate, reset, in-place measure, destructive measure (Z, X/Y bases, rotated bases), free, create_keep/recv_keep (k pairs, plain and "
    "sequential with post routine, sequential single pair without one, Bell states per pair, the min-fidelity retry option), create_context/recv_context, "
    "17 register-stored measurements in one subroutine (the one that does not fit must be rejected without side effects), a local qubit that lives and dies "
    "in id 0 before pairs arrive there, flush; NV also selected by the compiler argument alone; allocating rules are enabled only within the budget "
    "(budget-1 on single-communication-qubit hardware).  While the findings about leftover handles of sequential/context requests are open, such a request, "
    "its flush and the release of exactly those handles form one step (counted under excluded_by_known_finding); everything else about it is checked.  Non-trivial = history with >=1 id reuse after release, an NV "
    "relocation, or an EPR keep with another qubit alive; distinct by history hash"
)
ASSUMPTIONS = [
    "controller = repo Executor with a strict harness subclass (every quantum instruction resolves its virtual id through the unit module)",
    "the scripted network stack answers each request either when the program waits (lazy) or as early as the response can exist (eager), taking physical ids from the executor's allocator",
    "SDK argument checks (ValueError) are rejections, not violations",
]
SHARDS = {"quick": 4, "thorough": 16}

KF_CTX = "epr-context-ids-never-released"
KF_NV_ASSERT = "nv-keep-with-other-live-qubits-asserts"
KF_SEQ = "epr-sequential-handles-stay-active"
KF_BORROW = "nv-transpiler-borrows-unallocated-electron"


class HistoryRunner:
    """Plain interpreter of op lists (used by the state machine and by replay)."""

    def __init__(self, config):
        from netqasm.lang.instr.flavour import NVFlavour
        from netqasm.sdk.build_types import GenericHardwareConfig, NVHardwareConfig
        from netqasm.sdk.epr_socket import EPRSocket
        from netqasm.sdk.transpile import NVSubroutineTranspiler
        from vlib import net, sim

        self.config = config
        budget = config["budget"]
        nv = config["hardware"] == "nv"
        hw = NVHardwareConfig(budget) if nv else GenericHardwareConfig(budget)
        kw: Dict[str, Any] = {"max_qubits": budget, "hardware_config": hw}
        # with the NV transpiler as compiler the connection is an NV one whatever hardware config is (or is not) passed along
        given = config.get("hardware_given", "nv")
        if config["compiler"] == "nv" and given == "generic":
            kw["hardware_config"] = GenericHardwareConfig(budget)
        elif config["compiler"] == "nv" and given == "default":
            del kw["hardware_config"]
        flavour = None
        if config["compiler"] == "nv":
            kw["compiler"] = NVSubroutineTranspiler
            flavour = NVFlavour()
        self.sock = EPRSocket("bob")
        self.ctrl, self.conn = sim.fresh(sim.TraceExecutor, flavour=flavour, network_stack_cls=net.ScriptedNetworkStack, epr_sockets=[self.sock], **kw)
        self.ex = self.ctrl._executor
        self.stack = self.ctrl.network_stack
        if config.get("delivery") == "eager":
            self.ex.between_hook = self.stack.deliver_eagerly
        self.handles: List[Any] = []
        self.dead: List[Any] = []
        self.history: List[Any] = []
        self.cap = budget - 1 if (nv or config["compiler"] == "nv") else budget
        self.info = {"reuse": False, "relocation": False, "epr_with_other": False, "flushes": 0, "released": 0}
        self.out_arr = None

    def case(self):
        return {"config": self.config, "history": list(self.history)}

    def room(self) -> int:
        return self.cap - len(self.handles)

    def _pick(self, i):
        return self.handles[i % len(self.handles)]

    def apply(self, op) -> str:
        """returns '' or 'rejected'"""
        from netqasm.sdk.qubit import Qubit
        from vlib import sim

        self.history.append(op)
        k = op[0]
        try:
            if k == "new":
                if self.info["released"]:
                    self.info["reuse"] = True
                ids_before = {id(q): q.qubit_id for q in self.handles}
                q = Qubit(self.conn)
                self.handles.append(q)
                if any(ids_before[id(h)] != h.qubit_id for h in self.handles[:-1]):
                    self.info["relocation"] = True
            elif k == "gate1":
                getattr(self._pick(op[2]), op[1])()
            elif k == "gate2":
                a = self._pick(op[2])
                b = self._pick(op[3])
                if a is b:
                    self.history.pop()
                    return "rejected"
                getattr(a, op[1])(b)
            elif k == "meas":
                q = self._pick(op[1])
                ids_before = {id(h): h.qubit_id for h in self.handles}
                q.measure(inplace=op[2])
                if any(ids_before[id(h)] != h.qubit_id for h in self.handles):
                    self.info["relocation"] = True
                if not op[2]:
                    self.handles.remove(q)
                    self.dead.append(q)
                    self.info["released"] += 1
            elif k == "reset":
                self._pick(op[1]).reset()
            elif k == "measb":
                from netqasm.sdk.qubit import QubitMeasureBasis

                q = self._pick(op[1])
                ids_before = {id(h): h.qubit_id for h in self.handles}
                if op[3] is not None:
                    q.measure(inplace=op[2], basis_rotations=tuple(op[3]))
                else:
                    q.measure(inplace=op[2], basis=QubitMeasureBasis[op[4]])
                if any(ids_before[id(h)] != h.qubit_id for h in self.handles):
                    self.info["relocation"] = True
                if not op[2]:
                    self.handles.remove(q)
                    self.dead.append(q)
                    self.info["released"] += 1
            elif k == "free":
                q = self._pick(op[1])
                q.free()
                self.handles.remove(q)
                self.dead.append(q)
                self.info["released"] += 1
            elif k == "epr":
                _, role, kind, n = op[:4]
                bells = op[4] if len(op) > 4 else [0] * n
                minfid = op[5] if len(op) > 5 else False
                if self.handles:
                    self.info["epr_with_other"] = True
                api = getattr(self.sock, "create_keep" if role == "create" else "recv_keep")
                ids_before = {id(h): h.qubit_id for h in self.handles}
                if kind == "seq":
                    if self.out_arr is None:
                        self.out_arr = self.conn.new_array(8)
                    arr = self.out_arr

                    def post(c, q, pair):
                        q.measure(future=arr.get_future_index(pair))

                    api(number=n, sequential=True, post_routine=post)
                elif kind == "seq1":
                    # sequential mode for one pair with nothing registered to handle it: the caller keeps the qubit
                    n = 1
                    self.handles.extend(api(number=1, sequential=True))
                else:
                    if minfid:
                        # retry loop of the SDK; the scripted link reports goodness 0, so the first attempt is accepted
                        qs = api(number=n, min_fidelity_all_at_end=80, max_tries=3)
                    else:
                        qs = api(number=n)
                    self.handles.extend(qs)
                if any(ids_before[id(h)] != h.qubit_id for h in self.handles if id(h) in ids_before):
                    self.info["relocation"] = True
                self.stack.expect(role, "K", n, [{"bell_state": b} for b in bells])
            elif k == "eprctx":
                _, role, n = op
                if self.handles:
                    self.info["epr_with_other"] = True
                if self.out_arr is None:
                    self.out_arr = self.conn.new_array(8)
                ctxf = self.sock.create_context if role == "create" else self.sock.recv_context
                with ctxf(number=n) as (q, pair):
                    q.measure(future=self.out_arr.get_future_index(pair))
                self.stack.expect(role, "K", n)
            elif k in ("seq_atomic", "ctx_atomic"):
                # while the findings about leftover handles are open: the request, its execution, and then the release of exactly
                # the handles that the finding says are left behind (through the public `active` setter) form one step
                _, role, n, bells = op
                if self.handles:
                    self.info["epr_with_other"] = True
                if self.out_arr is None:
                    self.out_arr = self.conn.new_array(8)
                arr = self.out_arr
                if k == "seq_atomic":

                    def post(c, q, pair):
                        q.measure(future=arr.get_future_index(pair))

                    (self.sock.create_keep if role == "create" else self.sock.recv_keep)(number=n, sequential=True, post_routine=post)
                else:
                    ctxf = self.sock.create_context if role == "create" else self.sock.recv_context
                    with ctxf(number=n) as (q, pair):
                        q.measure(future=arr.get_future_index(pair))
                self.stack.expect(role, "K", n, [{"bell_state": b} for b in bells])
                self.flush(tolerate_leftover=True)
            elif k == "meas_overflow":
                # more register-stored outcomes than there are M registers in one subroutine: the call that does not fit is
                # rejected by the SDK and must leave everything as it was
                q = self._pick(op[1])
                got = []
                rejected = False
                for i in range(17):
                    try:
                        got.append(q.measure(inplace=(i < 16), store_array=False))
                    except RuntimeError as e:
                        if i < 16:
                            raise Failure("meas-overflow:rejected-early", self.case(), f"register-stored measurement {i + 1} of 17 in one subroutine was rejected ({str(e)[:80]}); there are 16 M registers")
                        rejected = True
                        break
                if not rejected:
                    self.handles.remove(q)
                    self.dead.append(q)
                self.info["overflow"] = True
                self.flush()
            elif k == "flush":
                self.flush()
            else:
                raise ValueError(op)
        except Failure:
            raise
        except ValueError as e:
            self.history.pop()
            return "rejected"
        except Exception as e:
            tb = traceback.extract_tb(e.__traceback__)
            fr = next((f for f in reversed(tb) if "/netqasm/" in f.filename), tb[-1])
            raise Failure(f"sdk-raises:{k}:{type(e).__name__}:{fr.name}:{self.config['hardware']}", self.case(), f"in-budget operation {op} raised {type(e).__name__}: {(str(e).splitlines() or [''])[0][:160]} (in {fr.name})")
        return ""

    def flush(self, tolerate_leftover=False):
        from vlib import sim

        self.info["flushes"] += 1
        try:
            self.conn.flush()
        except sim.WouldBlock:
            raise Failure(f"ctrl-blocks:{self.config['hardware']}", self.case(), "subroutine waits forever for an entanglement response that cannot be applied")
        except Exception as e:
            msg = (str(e).splitlines() or [''])[0][:200]
            import re

            kind = re.sub(r"[0-9]+", "N", msg.split(":", 1)[-1].strip())[:60]
            raise Failure(f"ctrl-fault:{type(e).__name__}:{self.config['hardware']}:{self.config['compiler']}:{kind}", self.case(), f"controller fault while executing the flushed subroutine: {type(e).__name__}: {msg}")
        app = self.conn.app_id
        um = self.ex._qubit_unit_modules[app]
        allocated = {i for i, p in enumerate(um) if p is not None}
        if tolerate_leftover:
            mine_ids = {id(q) for q in self.handles}
            for q in [q for q in self.conn.active_qubits if id(q) not in mine_ids]:
                q.active = False
        active = {q.qubit_id for q in self.conn.active_qubits}
        if active != allocated:
            raise Failure(f"active-vs-allocated:{self.config['hardware']}:{self.config['compiler']}", self.case(), f"after flush: connection.active_qubits has virtual ids {sorted(active)}, controller has allocated {sorted(allocated)}")
        if len(active) != len(self.conn.active_qubits):
            raise Failure("active-duplicate-ids", self.case(), f"two active handles share a virtual id: {[q.qubit_id for q in self.conn.active_qubits]}")
        mine = {q.qubit_id for q in self.handles}
        if mine != active:
            raise Failure(f"handles-vs-active:{self.config['hardware']}", self.case(), f"live handles {sorted(mine)} vs connection.active_qubits {sorted(active)}")
        for q in self.dead:
            if q.active:
                raise Failure("dead-handle-active", self.case(), "a handle that was measured destructively or freed is still active")


def make_machine(ctx: Ctx, stt):
    open_keys = ctx.open_findings

    class Machine(RuleBasedStateMachine):
        def __init__(self):
            super().__init__()
            self.r = None

        @initialize(budget=st.integers(1, 5), hardware=st.sampled_from(["generic", "nv"]), compiler=st.sampled_from(["none", "none", "nv"]), delivery=st.sampled_from(["lazy", "eager"]))
        def setup(self, budget, hardware, compiler, delivery):
            cfg = {"budget": budget, "hardware": hardware, "compiler": compiler, "delivery": delivery}
            if compiler == "nv":
                cfg["hardware_given"] = {"generic": "generic", "nv": "nv"}[hardware] if budget % 2 else ("default" if hardware == "generic" else "nv")
                cfg["hardware"] = "nv"
            self.r = HistoryRunner(cfg)

        @precondition(lambda self: self.r is not None and self.r.room() >= 1)
        @rule()
        def new(self):
            self.r.apply(["new"])

        @precondition(lambda self: self.r is not None and len(self.r.handles) >= 1)
        @rule(g=st.sampled_from(["X", "H", "Z", "T"]), h=st.integers(0, 7))
        def gate1(self, g, h):
            self.r.apply(["gate1", g, h])

        @precondition(lambda self: self.r is not None and len(self.r.handles) >= 2)
        @rule(g=st.sampled_from(["cnot", "cphase"]), a=st.integers(0, 7), b=st.integers(0, 7))
        def gate2(self, g, a, b):
            r = self.r
            if KF_BORROW in open_keys and r.config["compiler"] == "nv":
                qa, qb = r._pick(a), r._pick(b)
                if qa.qubit_id != 0 and qb.qubit_id != 0 and all(h.qubit_id != 0 for h in r.handles):
                    stt.excluded[KF_BORROW] += 1
                    return
            r.apply(["gate2", g, a, b])

        @precondition(lambda self: self.r is not None and len(self.r.handles) >= 1)
        @rule(h=st.integers(0, 7), inplace=st.booleans())
        def meas(self, h, inplace):
            self.r.apply(["meas", h, inplace])

        @precondition(lambda self: self.r is not None and len(self.r.handles) >= 1)
        @rule(h=st.integers(0, 7))
        def reset(self, h):
            self.r.apply(["reset", h])

        @precondition(lambda self: self.r is not None and len(self.r.handles) >= 1)
        @rule(h=st.integers(0, 7), inplace=st.booleans(), rot=st.none() | st.lists(st.integers(0, 31), min_size=3, max_size=3), basis=st.sampled_from(["X", "Y", "Z"]))
        def measb(self, h, inplace, rot, basis):
            self.r.apply(["measb", h, inplace, rot, basis])

        @precondition(lambda self: self.r is not None and len(self.r.handles) >= 1)
        @rule(h=st.integers(0, 7))
        def free(self, h):
            self.r.apply(["free", h])

        @precondition(lambda self: self.r is not None and self.r.room() >= 1)
        @rule(role=st.sampled_from(["create", "recv"]), kind=st.sampled_from(["plain", "plain", "seq", "seq1"]), n=st.integers(1, 3), bells=st.lists(st.integers(0, 3), min_size=3, max_size=3), minfid=st.integers(0, 5))
        def epr(self, role, kind, n, bells, minfid):
            if kind == "seq" and KF_SEQ in open_keys:
                # the finding says: the handles of a sequential request stay active. Everything else about such a request is still
                # checked (it executes without allocation faults, whatever the number of pairs), in one step with its flush
                stt.excluded[KF_SEQ] += 1
                self.r.apply(["seq_atomic", role, n, bells[:n]])
                return
            need = 1 if kind in ("seq", "seq1") else n
            if kind == "seq1":
                n = 1
            if need > self.r.room():
                n = self.r.room()
            if KF_NV_ASSERT in open_keys and self.r.config["hardware"] == "nv" and kind == "plain" and n > 1 and self.r.handles:
                stt.excluded[KF_NV_ASSERT] += 1
                return
            self.r.apply(["epr", role, kind, n, bells[:n], minfid == 0 and kind == "plain"])

        @precondition(lambda self: self.r is not None and self.r.room() >= 1)
        @rule(role=st.sampled_from(["create", "recv"]), n=st.integers(1, 3), bells=st.lists(st.integers(0, 3), min_size=3, max_size=3))
        def eprctx(self, role, n, bells):
            n = min(n, self.r.room())
            if KF_CTX in open_keys:
                stt.excluded[KF_CTX] += 1
                if self.r.config["hardware"] == "nv":
                    n = 1  # >= 2 pairs in a context never complete on this kind of device (same cause as C10's recv_rsp finding)
                self.r.apply(["ctx_atomic", role, n, bells[:n]])
                return
            self.r.apply(["eprctx", role, n])

        @precondition(lambda self: self.r is not None and len(self.r.handles) >= 1 and not self.r.info.get("overflow"))
        @rule(h=st.integers(0, 7))
        def meas_overflow(self, h):
            self.r.apply(["flush"])
            self.r.apply(["meas_overflow", h])

        @precondition(lambda self: self.r is not None and self.r.config["hardware"] == "nv" and self.r.room() >= 2 and not self.r.handles)
        @rule(role=st.sampled_from(["create", "recv"]), b1=st.integers(0, 3), b2=st.integers(0, 3), second=st.booleans())
        def born_dies_then_pairs(self, role, b1, b2, second):
            """one subroutine: a local qubit lives and dies in id 0, a pair arrives there, something evicts it"""
            self.r.apply(["new"])
            self.r.apply(["meas", 0, False])
            self.r.apply(["epr", role, "plain", 1, [b1], False])
            if second and self.r.room() >= 1:
                self.r.apply(["epr", role, "plain", 1, [b2], False])
            else:
                self.r.apply(["new"])
                self.r.apply(["meas", len(self.r.handles) - 1, False])
            self.r.apply(["flush"])

        @precondition(lambda self: self.r is not None)
        @rule()
        def flush(self):
            self.r.apply(["flush"])

        def teardown(self):
            if self.r is None:
                return
            r = self.r
            try:
                r.apply(["flush"])
            finally:
                info = r.info
                nt = info["reuse"] or info["relocation"] or info["epr_with_other"]
                c = r.config
                labels = [f"budget:{c['budget']}", c["hardware"], "compiler:" + c["compiler"]] + (["nv-by-compiler-only:" + c["hardware_given"]] if c.get("hardware_given", "nv") != "nv" else []) + [ "delivery:" + c.get("delivery", "lazy")] + [k for k in ("reuse", "relocation", "epr_with_other") if info[k]]
                labels += sorted({"op:" + op[0] for op in r.history})
                stt.case(r.case(), nt, labels, sample=r.case() if len(r.history) <= 12 else None)

    return Machine


def shard(ctx: Ctx) -> None:
    stt = ctx.stats
    n = 400 if ctx.tier == "quick" else 2000
    steps = 25 if ctx.tier == "quick" else 40
    M = make_machine(ctx, stt)
    best: Dict[str, Failure] = {}
    try:
        ctx.run_machine(M, n, steps)
    except Failure as f:
        ctx.fail(f)
    except Exception as e:
        # hypothesis wraps nothing; a Failure raised inside a rule arrives here unchanged. Anything else is a harness error.
        raise


def replay(case):
    r = HistoryRunner(case["config"])
    try:
        for op in case["history"]:
            r.apply(op)
        if not case["history"] or case["history"][-1] != ["flush"]:
            r.apply(["flush"])
    except Failure as f:
        return f
    return None
