"""C13 — qubit memory is safe and applications are isolated on the controller.

Stateful model-based testing through the message layer (InitNewApp / Subroutine / StopApp bytes into
QNodeController.handle_netqasm_message) with a per-application reference model (vlib.refinterp).
"""
from __future__ import annotations

import copy
import itertools
from typing import Any, Dict, List, Optional

from hypothesis import strategies as st
from hypothesis.stateful import RuleBasedStateMachine, precondition, rule

from vlib import gen_instr as g
from vlib import refinterp as ri
from vlib.runner import Ctx, Failure

LEVEL = "exploration"
RULE = (
    "Hypothesis RuleBasedStateMachine over one controller: register application (ids 0..2, unit module 1..4), stop, "
    "re-register a stopped id, run a small subroutine for an application (qalloc/qfree/set/add/array/store/load/ret_reg/"
    "ret_arr with generated operands, incl. faulting ones), receive a keep pair (recv_epr + scripted response), the network stack taking a "
    "physical qubit ahead of delivery, subroutines that stay suspended in a wait while other applications run (start / deliver / resume "
    "as separate steps, up to three suspended at once, on two sockets, also into a virtual qubit that is still allocated so that the response has to wait), all through "
    "serialised messages; subroutines that touch the unit module, declare an array and stay suspended in wait_all on it while their application "
    "runs other subroutines, is stopped and is registered again (any unit-module size), and then continue with further allocations / frees in the new registration "
    "(start / resume as separate steps, and as one generated multi-step history) (plus two fixed histories in which one subroutine stays suspended while another application runs 300 / 600 subroutines, and one in which an application is stopped and registered again under a waiting subroutine); invariants after every step (incl. the position lookup instructions use for every mapped qubit).  Thorough adds exhaustive enumeration of all histories to depth 5 "
    "over a reduced alphabet.  Non-trivial = >=2 applications alive at once and >=1 stop; distinct by history hash"
)
ASSUMPTIONS = [
    "physical qubit ids are taken from the executor's own allocator (lowest unused id)",
    "re-registering an application id is legitimate once that application was stopped",
]
SHARDS = {"quick": 4, "thorough": 16}


def expand(macro) -> List[Any]:
    """macro-op -> instruction JSON (registers C14/C15/Q15 are temporaries)"""
    k = macro[0]
    if k == "qalloc":
        return [["set", ["Q15", macro[1]]], ["qalloc", ["Q15"]]]
    if k == "qfree":
        return [["set", ["Q15", macro[1]]], ["qfree", ["Q15"]]]
    if k == "array":
        return [["set", ["C15", macro[2]]], ["array", ["C15", {"addr": macro[1]}]]]
    if k == "store":
        return [["set", ["C15", macro[3]]], ["set", ["C14", macro[2]]], ["store", ["C15", {"addr": macro[1], "idx": "C14"}]]]
    if k == "load":
        return [["set", ["C14", macro[3]]], ["load", [macro[1], {"addr": macro[2], "idx": "C14"}]]]
    if k == "setreg":
        return [["set", [macro[1], macro[2]]]]
    if k == "addreg":
        return [["set", ["C15", macro[2]]], ["add", [macro[1], macro[1], "C15"]]]
    if k == "retreg":
        return [["ret_reg", [macro[1]]]]
    if k == "retarr":
        return [["ret_arr", [{"addr": macro[1]}]]]
    raise ValueError(macro)


REGS = ["R0", "R1", "M0", "Q0", "C0"]
st_macro = st.one_of(
    st.tuples(st.just("qalloc"), st.integers(0, 4)),
    st.tuples(st.just("qalloc"), st.integers(0, 3)),
    st.tuples(st.just("qfree"), st.integers(0, 3)),
    st.tuples(st.just("array"), st.integers(0, 2), st.integers(1, 3)),
    st.tuples(st.just("store"), st.integers(0, 2), st.integers(0, 3), st.integers(-3, 9)),
    st.tuples(st.just("load"), st.sampled_from(REGS), st.integers(0, 2), st.integers(0, 2)),
    st.tuples(st.just("setreg"), st.sampled_from(REGS), st.integers(-5, 20)),
    st.tuples(st.just("addreg"), st.sampled_from(REGS[:1]), st.integers(1, 3)),
    st.tuples(st.just("retreg"), st.sampled_from(REGS)),
    st.tuples(st.just("retarr"), st.integers(0, 2)),
).map(list)


class Runner13:
    def __init__(self):
        from vlib import net, sim

        sim.reset_globals()
        self.sim = sim
        self.ctrl = sim.controller_class(sim.TraceExecutor)(name="node")
        self.ex = self.ctrl._executor
        self.stack = net.ScriptedNetworkStack(self.ex)
        self.ctrl.network_stack = self.stack
        self.model: Dict[int, ri.RefState] = {}  # active apps
        self.stopped: set = set()
        self.history: List[Any] = []
        self.msg_id = 0
        self.info = {"max_alive": 0, "stops": 0, "reinit": 0, "faults": 0, "epr": 0, "reserve": 0, "suspended": 0, "max_suspended": 0}
        self.reserved: List[int] = []  # physical qubits the network stack has taken for pairs it has not delivered yet
        self.deferred: List[int] = []  # physical qubits of delivered pairs whose virtual qubit is still allocated (response waits)
        self.n_waiting_unreserved = 0  # waiting responses whose physical qubit was only reported by the stack (nothing marked yet)
        self.suspended: List[Dict[str, Any]] = []  # subroutines waiting for a pair (oldest request first)
        self.waiting: List[Dict[str, Any]] = []  # subroutines suspended in wait_all on an array of their application
        self.epoch: Dict[int, int] = {}  # number of registrations of each application id so far

    def case(self):
        return {"history": list(self.history)}

    def send(self, msg):
        from netqasm.backend.messages import deserialize_host_msg

        self.msg_id += 1
        raw = bytes(msg)
        out = self.ctrl.handle_netqasm_message(self.msg_id, deserialize_host_msg(raw))
        for _ in out:
            pass

    def used_model(self, exclude: Optional[int] = None) -> set:
        s = set()
        for a, m in self.model.items():
            if a != exclude:
                s |= set(m.qubits.values())
        return s | set(self.reserved) | set(self.deferred)

    def snapshot_app(self, a) -> Dict[str, Any]:
        from netqasm.sdk.shared_memory import SharedMemoryManager

        ex = self.ex
        regs = self.sim.read_registers(ex, a)
        shm = SharedMemoryManager.get_shared_memory("node", a)
        sh_regs = {}
        sh_arrs = {}
        if shm is not None:
            sh_regs = self.sim.read_shared_registers(shm)
            sh_arrs = {k: list(v) for k, v in shm._arrays._arrays.items()}
        return {
            "regs": regs,
            "arrays": {k: list(v) for k, v in ex._app_arrays[a]._arrays.items()},
            "qubits": {i: p for i, p in enumerate(ex._qubit_unit_modules[a]) if p is not None},
            "shared_regs": sh_regs,
            "shared_arrays": sh_arrs,
        }

    def apply(self, op):
        from netqasm.backend.messages import InitNewAppMessage, StopAppMessage, SubroutineMessage
        from netqasm.lang.subroutine import Subroutine

        self.history.append(op)
        k = op[0]
        before = {a: self.snapshot_app(a) for a in self.model}
        stepping = None
        if k == "init":
            _, a, size = op
            if a in self.stopped:
                self.info["reinit"] += 1
            try:
                self.send(InitNewAppMessage(app_id=a, max_qubits=size))
            except Exception as e:
                what = "re-register" if a in self.stopped else "register"
                raise Failure(f"{what}-raises:{type(e).__name__}", self.case(), f"cannot {what} application {a}: {type(e).__name__}: {str(e)[:160]}")
            self.model[a] = ri.RefState(unit_size=size)
            self.epoch[a] = self.epoch.get(a, 0) + 1
            self.stopped.discard(a)
            stepping = a
            fresh = self.snapshot_app(a)
            if fresh["shared_regs"] or fresh["shared_arrays"] or fresh["regs"] or fresh["arrays"] or fresh["qubits"]:
                raise Failure("register:not-fresh", self.case(), f"application {a} was just registered but already owns state: {fresh}")
        elif k == "stop":
            _, a = op
            try:
                self.send(StopAppMessage(app_id=a))
            except Exception as e:
                raise Failure(f"stop-raises:{type(e).__name__}", self.case(), f"stopping application {a} raised {type(e).__name__}: {str(e)[:160]}")
            del self.model[a]
            self.stopped.add(a)
            self.info["stops"] += 1
            if any(w_["app"] == a for w_ in self.waiting):
                self.info["stop_while_waiting"] = self.info.get("stop_while_waiting", 0) + 1
            ex = self.ex
            for name in ("_registers", "_app_arrays", "_shared_memories", "_qubit_unit_modules"):
                if a in getattr(ex, name):
                    raise Failure("stop-leaves-state", self.case(), f"after stop, application {a} still owns {name}")
        elif k == "sub":
            _, a, macros = op
            stepping = a
            prog = [i for m in macros for i in expand(m)]
            sub = Subroutine(instructions=[g.instr_from_json("vanilla", j) for j in prog], app_id=a)
            m = self.model[a]
            m.ret_log = []
            mach = ri.Machine(m, prog, other_phys_used=self.used_model(exclude=a))
            try:
                fault = mach.run(1000)
            except ri.OutOfDomain:
                self.history.pop()
                # re-sync impossible: abandon this machine run cleanly
                raise
            err = None
            try:
                self.send(SubroutineMessage(sub))
            except Exception as e:
                err = e
            if (err is None) != (fault is None):
                raise Failure("fault-mismatch", self.case(), f"application {a}: reference fault {fault} vs executor error {err!r}")
            if fault is not None:
                self.info["faults"] += 1
        elif k == "epr":
            _, a, virt = op
            stepping = a
            m = self.model[a]
            text_prog = [
                ["set", ["C15", 1]], ["array", ["C15", {"addr": 7}]], ["set", ["C15", virt]], ["set", ["C14", 0]], ["store", ["C15", {"addr": 7, "idx": "C14"}]],
                ["set", ["C15", 10]], ["array", ["C15", {"addr": 8}]],
            ]
            from netqasm.lang.parsing.text import parse_text_subroutine

            sub = parse_text_subroutine(f"# NETQASM 0.0\n# APPID {a}\narray 1 @7\nstore {virt} @7[0]\narray 10 @8\nrecv_epr(1,0) 7 8\nwait_all @8[0:10]\n")
            phys_expected = 0
            used = self.used_model()
            while phys_expected in used:
                phys_expected += 1
            fields = {"bell_state": 0, "create_id": 5, "sequence_number": 6, "goodness": 7, "goodness_time": 8}
            if self.reserved:
                # the pair sits in a qubit the stack took earlier
                phys_expected = self.reserved.pop(0)
                fields["logical_qubit_id"] = phys_expected
            elif (virt + len(self.history)) % 2 == 0:
                # a stack that chooses the (free) physical qubit itself and only reports it
                fields["logical_qubit_id"] = phys_expected
            self.stack.expect("recv", "K", 1, [fields])
            try:
                self.send(SubroutineMessage(sub))
            except Exception as e:
                raise Failure(f"epr-raises:{type(e).__name__}", self.case(), f"application {a}: receiving a pair into free virtual qubit {virt} raised {type(e).__name__}: {(str(e).splitlines() or [''])[0][:160]}")
            # mirror in the model
            snap = self.snapshot_app(a)
            m.regs = dict(snap["regs"])  # scratch registers chosen by the assembler are not modelled: adopt them
            m.arrays[7] = [virt]
            m.arrays[8] = list(snap["arrays"].get(8, []))
            m.qubits[virt] = phys_expected
            m.used_phys.add(phys_expected)
            self.info["epr"] += 1
        elif k == "reserve":
            # the network stack takes a free physical qubit for a pair that it will deliver later
            used = self.used_model()
            want = 0
            while want in used:
                want += 1
            p = self.ex._get_unused_physical_qubit()
            if p != want:
                raise Failure("reserve:qubit-in-use" if p in used else "reserve:not-lowest", self.case(), f"the stack was handed physical qubit {p}; in use/reserved {sorted(used)}")
            self.reserved.append(p)
            self.info["reserve"] += 1
        elif k == "epr_start":
            _, a, virt = op[:3]
            sock = op[3] if len(op) > 3 else 0
            occupied = virt in self.model[a].qubits  # the pair is requested into a virtual qubit that is still allocated
            stepping = a
            from netqasm.lang.parsing.text import parse_text_subroutine
            from netqasm.backend.messages import deserialize_host_msg

            sub = parse_text_subroutine(f"# NETQASM 0.0\n# APPID {a}\narray 1 @7\nstore {virt} @7[0]\narray 10 @8\nrecv_epr(1,{sock}) 7 8\nwait_all @8[0:10]\nset R1 {40 + a}\nret_reg R1\n")
            self.msg_id += 1
            self.ex.yield_on_wait = True
            try:
                gen = self.ctrl.handle_netqasm_message(self.msg_id, deserialize_host_msg(bytes(SubroutineMessage(sub))))
                state = None
                for y in gen:
                    if y == self.ex.WAITING:
                        state = "waiting"
                        break
            except Exception as e:
                raise Failure(f"epr-start-raises:{type(e).__name__}", self.case(), f"application {a}: {type(e).__name__}: {(str(e).splitlines() or [''])[0][:160]}")
            finally:
                self.ex.yield_on_wait = False
            if state != "waiting":
                raise Failure("epr-start:no-wait", self.case(), f"application {a}: a subroutine waiting for a pair that was never delivered ran to completion")
            snap = self.snapshot_app(a)
            m = self.model[a]
            m.regs = dict(snap["regs"])
            m.arrays[7] = [virt]
            m.arrays[8] = [None] * 10
            self.suspended.append({"app": a, "virt": virt, "gen": gen, "delivered": False, "sock": sock, "occupied": occupied, "sent": False})
            self.info["suspended"] += 1
            self.info["max_suspended"] = max(self.info["max_suspended"], len(self.suspended))
        elif k == "epr_deliver":
            # the link layer delivers one pair: it belongs to the oldest request still waiting for one
            dsock = op[1] if len(op) > 1 else 0
            tgt = next(s_ for s_ in self.suspended if not s_["sent"] and s_["sock"] == dsock)
            a, virt = tgt["app"], tgt["virt"]
            stepping = a
            from netqasm.qlink_compat import LinkLayerOKTypeK, ReturnType

            unreserved = False
            # a response also has to wait when an earlier response of the same queue is still waiting (no overtaking)
            must_wait = tgt["occupied"] or any(s_["sent"] and not s_["delivered"] and s_["sock"] == dsock for s_ in self.suspended if s_ is not tgt)
            if self.reserved:
                p = self.reserved.pop(0)
            elif must_wait and (len(self.history) + virt) % 2 == 0:
                p = self.ex._get_unused_physical_qubit()  # taken at delivery time, as a network stack does
            elif must_wait:
                # a stack that picks a free qubit itself and only reports it: nothing is marked on the controller until the
                # response can be applied
                used = self.used_model()
                p = 0
                while p in used:
                    p += 1
                unreserved = True
            else:
                used = self.used_model()
                p = 0
                while p in used:
                    p += 1
            resp = LinkLayerOKTypeK(type=ReturnType.OK_K, create_id=5, logical_qubit_id=p, directionality_flag=1, sequence_number=6, purpose_id=dsock, remote_node_id=1, goodness=7, goodness_time=8, bell_state=0)
            try:
                self.ex._handle_epr_response(resp)
            except Exception as e:
                raise Failure(f"epr-deliver-raises:{type(e).__name__}", self.case(), f"{type(e).__name__}: {(str(e).splitlines() or [''])[0][:160]}")
            tgt["sent"] = True
            if must_wait:
                # the virtual qubit is still allocated: the response has to wait on the controller, holding its physical qubit
                if unreserved:
                    self.n_waiting_unreserved += 1
                else:
                    self.deferred.append(p)
                self.info["deferred"] = self.info.get("deferred", 0) + 1
                self.info["max_alive"] = max(self.info["max_alive"], len(self.model))
                self.check_invariants(before, None)
                return
            tgt["delivered"] = True
            m = self.model[a]
            m.qubits[virt] = p
            m.used_phys.add(p)
            m.arrays[8] = list(self.snapshot_app(a)["arrays"].get(8, []))
            if any(v is None for v in m.arrays[8]):
                raise Failure("epr-deliver:not-stored", self.case(), f"application {a}: after the response its result array is {m.arrays[8]}")
            self.info["epr"] += 1
        elif k == "epr_resume":
            _, idx = op
            tgt = self.suspended[idx % len(self.suspended)]
            a = tgt["app"]
            stepping = a
            self.ex.yield_on_wait = True
            done = True
            try:
                for y in tgt["gen"]:
                    if y == self.ex.WAITING:
                        done = False
                        break
            except Exception as e:
                raise Failure(f"epr-resume-raises:{type(e).__name__}", self.case(), f"application {a}: resuming its waiting subroutine raised {type(e).__name__}: {(str(e).splitlines() or [''])[0][:160]}")
            finally:
                self.ex.yield_on_wait = False
            if done != tgt["delivered"]:
                raise Failure("epr-resume:wait", self.case(), f"application {a}: its pair was {'' if tgt['delivered'] else 'not '}delivered but the waiting subroutine {'finished' if done else 'keeps waiting'}")
            if done:
                self.suspended.remove(tgt)
                m = self.model[a]
                m.regs["R1"] = 40 + a
                m.ret_log = [("reg", "R1", 40 + a)]
                snap = self.snapshot_app(a)
                if snap["shared_regs"].get("R1") != 40 + a:
                    raise Failure("epr-resume:wrong-application", self.case(), f"application {a}: its resumed subroutine should have returned R1={40 + a}; host-visible registers {snap['shared_regs']}")
        elif k == "wait_start":
            # a subroutine of application a: generated macro-ops, then a fresh array and wait_all on it (always blocks: the
            # entries were just created undefined), then - once some later step has defined the entries - further macro-ops
            _, a, pre, addr, n, post = op
            stepping = a
            from netqasm.backend.messages import deserialize_host_msg

            prog_pre = [i for m_ in pre for i in expand(m_)] + expand(["array", addr, n]) + [["set", ["C13", 0]], ["set", ["C12", n]]]
            prog_wait = [["wait_all", [{"addr": addr, "start": "C13", "stop": "C12"}]]]
            prog_post = [i for m_ in post for i in expand(m_)]
            sub = Subroutine(instructions=[g.instr_from_json("vanilla", j) for j in prog_pre + prog_wait + prog_post], app_id=a)
            m = self.model[a]
            m.ret_log = []
            mach = ri.Machine(m, prog_pre, other_phys_used=self.used_model(exclude=a))
            try:
                fault = mach.run(1000)
            except ri.OutOfDomain:
                self.history.pop()
                raise
            self.msg_id += 1
            self.ex.yield_on_wait = True
            err = None
            state = None
            gen = None
            try:
                gen = self.ctrl.handle_netqasm_message(self.msg_id, deserialize_host_msg(bytes(SubroutineMessage(sub))))
                for y in gen:
                    if y == self.ex.WAITING:
                        state = "waiting"
                        break
            except Exception as e:
                err = e
            finally:
                self.ex.yield_on_wait = False
            if (err is None) != (fault is None):
                raise Failure("fault-mismatch", self.case(), f"application {a}: reference fault {fault} vs executor error {err!r} (part before the wait)")
            if fault is not None:
                self.info["faults"] += 1
            else:
                if state != "waiting":
                    raise Failure("wait-start:no-wait", self.case(), f"application {a}: a subroutine waiting for the undefined entries of a fresh array @{addr}[0:{n}] ran to completion")
                self.waiting.append({"app": a, "addr": addr, "n": n, "post": prog_post, "gen": gen, "epoch": self.epoch[a]})
                self.info["waiting"] = self.info.get("waiting", 0) + 1
        elif k == "wait_resume":
            # the scheduler gives a subroutine suspended in wait_all another turn.  Judged only when the application is registered
            # (possibly again) and owns an array of sufficient length at the awaited address
            _, idx = op
            tgt = self.waiting[idx % len(self.waiting)]
            a, addr, n = tgt["app"], tgt["addr"], tgt["n"]
            m = self.model.get(a)
            if m is None or len(m.arrays.get(addr, [])) < n:
                self.history.pop()
                return
            stepping = a
            blocked = any(v is None for v in m.arrays[addr][:n])
            m.ret_log = []
            fault = None
            if not blocked:
                mach = ri.Machine(m, tgt["post"], other_phys_used=self.used_model(exclude=a))
                try:
                    fault = mach.run(1000)
                except ri.OutOfDomain:
                    self.history.pop()
                    raise
            self.ex.yield_on_wait = True
            done = True
            err = None
            try:
                for y in tgt["gen"]:
                    if y == self.ex.WAITING:
                        done = False
                        break
            except Exception as e:
                err = e
            finally:
                self.ex.yield_on_wait = False
            if blocked:
                if err is not None:
                    raise Failure(f"wait-resume-raises:{type(err).__name__}", self.case(), f"application {a}: its subroutine waiting for @{addr}[0:{n}] = {m.arrays[addr][:n]} raised {type(err).__name__}: {(str(err).splitlines() or [''])[0][:160]}")
                if done:
                    raise Failure("wait-resume:wait", self.case(), f"application {a}: @{addr}[0:{n}] is {m.arrays[addr][:n]} but the subroutine waiting for all of these entries finished")
            else:
                if err is None and not done:
                    raise Failure("wait-resume:wait", self.case(), f"application {a}: @{addr}[0:{n}] is {m.arrays[addr][:n]} (all defined) but the subroutine waiting for these entries keeps waiting")
                if (err is None) != (fault is None):
                    raise Failure("fault-mismatch", self.case(), f"application {a}: reference fault {fault} vs executor error {err!r} (part after the wait)")
                if fault is not None:
                    self.info["faults"] += 1
                self.waiting.remove(tgt)
                self.info["wait_resumed"] = self.info.get("wait_resumed", 0) + 1
                if tgt["epoch"] != self.epoch[a]:
                    self.info["resumed_in_new_registration"] = self.info.get("resumed_in_new_registration", 0) + 1
        else:
            raise ValueError(op)
        self.info["max_alive"] = max(self.info["max_alive"], len(self.model))
        self.check_invariants(before, stepping)

    def check_invariants(self, before, stepping):
        ex = self.ex
        # 1. joint injectivity and used set
        seen: Dict[int, Any] = {}
        for a, um in ex._qubit_unit_modules.items():
            for v, p in enumerate(um):
                if p is None:
                    continue
                if p in seen:
                    raise Failure("physical-qubit-shared", self.case(), f"physical qubit {p} is mapped by application {seen[p][0]} virtual {seen[p][1]} and by application {a} virtual {v}")
                seen[p] = (a, v)
                # what an instruction (or a simulator built on the executor) is told when it asks where that qubit lives
                try:
                    pos = ex._get_position_in_unit_module(a, v)
                except Exception as e:
                    pos = f"{type(e).__name__}"
                if pos != p:
                    raise Failure("position-lookup", self.case(), f"application {a} virtual qubit {v} is mapped to physical qubit {p}, but the position lookup answers {pos}")
        if set(seen) & set(self.reserved):
            raise Failure("reserved-qubit-mapped", self.case(), f"physical qubits {sorted(set(seen) & set(self.reserved))} were taken by the network stack for undelivered pairs but are mapped by an application")
        if set(seen) | set(self.reserved) | set(self.deferred) != set(ex._used_physical_qubit_addresses):
            raise Failure("used-set-mismatch", self.case(), f"physical qubits marked in use {sorted(ex._used_physical_qubit_addresses)} vs mapped {sorted(seen)} + taken by the stack {sorted(self.reserved)} + held by waiting responses {sorted(self.deferred)}")
        if len(ex._pending_epr_responses) != len(self.deferred) + self.n_waiting_unreserved:
            raise Failure("waiting-responses", self.case(), f"{len(ex._pending_epr_responses)} responses wait on the controller; {len(self.deferred) + self.n_waiting_unreserved} were delivered for virtual qubits that are still allocated")
        if set(ex._qubit_unit_modules) != set(self.model):
            raise Failure("app-set-mismatch", self.case(), f"controller has applications {sorted(ex._qubit_unit_modules)}, model {sorted(self.model)}")
        # 2./3. per application state
        for a, m in self.model.items():
            snap = self.snapshot_app(a)
            if a != stepping and a in before:
                if snap != before[a]:
                    diff = {k: (before[a][k], snap[k]) for k in snap if snap[k] != before[a][k]}
                    raise Failure("isolation", self.case(), f"a step of application {stepping} changed application {a}: {diff}")
            want = m.snapshot()
            for key in ("regs", "arrays", "qubits"):
                if snap[key] != want[key]:
                    raise Failure(f"state:{key}", self.case(), f"application {a}: {key} {snap[key]} vs reference {want[key]}")
            if a == stepping:
                for kind, key, val in m.ret_log:
                    got = snap["shared_regs"].get(key) if kind == "reg" else snap["shared_arrays"].get(key)
                    last = [v for (kk, k2, v) in m.ret_log if kk == kind and k2 == key][-1]
                    cur = m.regs.get(key) if kind == "reg" else None
                    if kind == "reg" and got != last:
                        raise Failure("shared-memory", self.case(), f"application {a}: host-visible register {key} is {got}, last returned value {last}")
                    if kind == "arr" and got is None:
                        raise Failure("shared-memory", self.case(), f"application {a}: returned array {key} is not host-visible")


def make_machine(ctx, stt):
    class Machine(RuleBasedStateMachine):
        def __init__(self):
            super().__init__()
            self.r = Runner13()
            self.dead = False

        def _do(self, op):
            if self.dead:
                return
            try:
                self.r.apply(op)
            except ri.OutOfDomain:
                self.dead = True

        @rule(a=st.integers(0, 2), size=st.integers(1, 4))
        def init(self, a, size):
            if a in self.r.model:
                return
            self._do(["init", a, size])

        @precondition(lambda self: len(self.r.model) >= 1)
        @rule(i=st.integers(0, 5))
        def stop(self, i):
            apps = [a for a in sorted(self.r.model) if a not in self._busy()]
            if apps:
                self._do(["stop", apps[i % len(apps)]])

        @precondition(lambda self: len(self.r.model) >= 1)
        @rule(i=st.integers(0, 5), macros=st.lists(st_macro, min_size=1, max_size=5))
        def sub(self, i, macros):
            apps = [a for a in sorted(self.r.model) if a not in self._busy()]
            if apps:
                self._do(["sub", apps[i % len(apps)], macros])

        @precondition(lambda self: len(self.r.model) >= 1)
        @rule(i=st.integers(0, 5), v=st.integers(0, 3))
        def epr(self, i, v):
            if self.r.suspended:
                return  # an older request of the same socket is still waiting: the pair would be its
            apps = sorted(self.r.model)
            a = apps[i % len(apps)]
            m = self.r.model[a]
            free = [x for x in range(m.unit_size) if x not in m.qubits]
            if not free:
                return
            self._do(["epr", a, free[v % len(free)]])

        def _busy(self):
            return {s_["app"] for s_ in self.r.suspended}

        @precondition(lambda self: len(self.r.reserved) < 2)
        @rule()
        def reserve(self):
            self._do(["reserve"])

        @precondition(lambda self: len(self.r.model) >= 1 and len(self.r.suspended) < 3)
        @rule(i=st.integers(0, 5), v=st.integers(0, 3))
        def epr_start(self, i, v, sock=0, occupied=False):
            apps = [a for a in sorted(self.r.model) if a not in self._busy()]
            if not apps:
                return
            a = apps[i % len(apps)]
            m = self.r.model[a]
            free = [x for x in range(m.unit_size) if x not in m.qubits]
            held = sorted(m.qubits)
            if occupied and held:
                self._do(["epr_start", a, held[v % len(held)], sock])
                return
            if not free:
                return
            self._do(["epr_start", a, free[v % len(free)], sock])

        @precondition(lambda self: len(self.r.model) >= 1 and len(self.r.suspended) < 3)
        @rule(i=st.integers(0, 5), v=st.integers(0, 3), sock=st.integers(0, 1), occupied=st.booleans())
        def epr_start_any(self, i, v, sock, occupied):
            self.epr_start(i, v, sock, occupied)

        @precondition(lambda self: len([a for a in self.r.model if a not in self._busy()]) >= 2 and len(self.r.suspended) <= 1 and not any(not s_["sent"] for s_ in self.r.suspended))
        @rule(i=st.integers(0, 5), s_=st.integers(0, 1))
        def waiting_response_then_other_queue(self, i, s_):
            """a response that has to wait (its virtual qubit is still allocated), then traffic on the other socket"""
            apps = [a for a in sorted(self.r.model) if a not in self._busy()]
            a, b = apps[i % len(apps)], apps[(i + 1) % len(apps)]
            mb = self.r.model[b]
            free_b = [x for x in range(mb.unit_size) if x not in mb.qubits]
            if not free_b:
                return
            if not self.r.model[a].qubits:
                self._do(["sub", a, [["qalloc", 0]]])
            if self.dead or not self.r.model[a].qubits:
                return
            self._do(["epr_start", a, sorted(self.r.model[a].qubits)[0], s_])
            self._do(["epr_deliver", s_])
            self._do(["epr_start", b, free_b[0], 1 - s_])
            self._do(["epr_deliver", 1 - s_])
            if not self.dead:
                self._do(["epr_resume", len(self.r.suspended) - 1])

        @precondition(lambda self: any(not s_["sent"] for s_ in self.r.suspended))
        @rule(k=st.integers(0, 3))
        def epr_deliver(self, k):
            socks = sorted({s_["sock"] for s_ in self.r.suspended if not s_["sent"]})
            self._do(["epr_deliver", socks[k % len(socks)]])

        @precondition(lambda self: len(self.r.suspended) >= 1)
        @rule(i=st.integers(0, 5))
        def epr_resume(self, i):
            self._do(["epr_resume", i])

        @precondition(lambda self: len(self.r.model) >= 1 and len(self.r.waiting) < 2)
        @rule(i=st.integers(0, 5), pre=st.lists(st_macro, max_size=3), addr=st.integers(0, 2), n=st.integers(1, 2), post=st.lists(st_macro, min_size=1, max_size=3))
        def wait_start(self, i, pre, addr, n, post):
            apps = [a for a in sorted(self.r.model) if a not in self._busy()]
            if apps:
                self._do(["wait_start", apps[i % len(apps)], pre, addr, n, post])

        @precondition(lambda self: len(self.r.waiting) >= 1)
        @rule(i=st.integers(0, 5))
        def wait_resume(self, i):
            if self.r.waiting[i % len(self.r.waiting)]["app"] in self._busy():
                return
            self._do(["wait_resume", i])

        @precondition(lambda self: len(self.r.model) >= 1 and len(self.r.waiting) < 2)
        @rule(i=st.integers(0, 5), v=st.integers(0, 3), w=st.integers(0, 3), pre=st.lists(st_macro, max_size=2), post=st.lists(st_macro, max_size=2), free_after=st.booleans(),
              addr=st.integers(0, 2), n=st.integers(1, 2), size=st.integers(1, 4), vals=st.lists(st.integers(-3, 9), min_size=2, max_size=2),
              reregister=st.booleans(), between=st.lists(st_macro, max_size=2))
        def application_changes_under_waiting_subroutine(self, i, v, w, pre, post, free_after, addr, n, size, vals, reregister, between):
            """a subroutine that has used its application's unit module waits on an array; meanwhile the application runs another
            subroutine or is stopped and registered again; the awaited entries get defined; the subroutine continues with a qalloc / qfree"""
            apps = [a for a in sorted(self.r.model) if a not in self._busy()]
            if not apps:
                return
            a = apps[i % len(apps)]
            m = self.r.model[a]
            free = [x for x in range(m.unit_size) if x not in m.qubits]
            held = sorted(m.qubits)
            pre = pre + ([["qalloc", free[v % len(free)]]] if free else [["qfree", held[v % len(held)]]])
            post = post + [["qfree" if free_after else "qalloc", w]]
            n_waiting = len(self.r.waiting)
            self._do(["wait_start", a, pre, addr, n, post])
            if self.dead or len(self.r.waiting) != n_waiting + 1:
                return  # the part before the wait faulted: nothing is suspended
            if reregister:
                self._do(["stop", a])
                self._do(["init", a, size])
            self._do(["sub", a, between + [["array", addr, n]] + [["store", addr, j, vals[j]] for j in range(n)]])
            if not self.dead:
                self._do(["wait_resume", len(self.r.waiting) - 1])

        def teardown(self):
            info = self.r.info
            nt = info["max_alive"] >= 2 and info["stops"] >= 1
            labels = [f"alive:{info['max_alive']}"] + [k for k in ("stops", "reinit", "faults", "epr", "reserve", "suspended", "deferred", "waiting", "wait_resumed", "stop_while_waiting", "resumed_in_new_registration") if info.get(k)] + ([f"suspended-at-once:{info['max_suspended']}"] if info["max_suspended"] >= 2 else [])
            h = self.r.history
            stt.case(h, nt, labels, sample={"history": h} if len(str(h)) < 600 else None)

    return Machine


def shard(ctx: Ctx) -> None:
    stt = ctx.stats
    n = 600 if ctx.tier == "quick" else 2000
    steps = 30 if ctx.tier == "quick" else 50
    try:
        ctx.run_machine(make_machine(ctx, stt), n, steps)
    except Failure as f:
        ctx.fail(f)
    if ctx.shard == 0:
        # one long fixed history: a subroutine of application 0 stays suspended in a wait while application 1 runs several hundred
        # subroutines (subroutine ids, message ids and other counters go well past 256 and 512); then the pair arrives and it resumes
        for n_between in (300, 600):
            hist = [["init", 0, 2], ["init", 1, 2], ["epr_start", 0, 0, 0]] + [["sub", 1, [["setreg", "R0", i % 7], ["addreg", "R0", 1]]] for i in range(n_between)] + [["epr_deliver", 0], ["epr_resume", 0],
                    ["sub", 0, [["setreg", "R0", 3], ["retreg", "R0"]]]]
            f_ = replay({"history": hist})
            if f_ is not None:
                ctx.fail(Failure(f_.signature, {"history": hist}, f_.message))
            stt.case(["long-suspension", n_between], True, ["fixed:suspended-across-many-subroutines"])
    if ctx.shard == 0:
        # one short fixed history: application 0 is stopped and registered again while one of its subroutines (which already
        # allocated a qubit) waits on an array; the new registration defines the entry; the subroutine continues and allocates
        hist = [["init", 0, 2], ["init", 1, 2], ["wait_start", 0, [["qalloc", 0]], 0, 1, [["qalloc", 1]]], ["sub", 1, [["qalloc", 0]]], ["stop", 0], ["init", 0, 2],
                ["sub", 0, [["array", 0, 1], ["store", 0, 0, 7]]], ["wait_resume", 0], ["sub", 1, [["qalloc", 1]]], ["stop", 0], ["stop", 1]]
        f_ = replay({"history": hist})
        if f_ is not None:
            ctx.fail(Failure(f_.signature, {"history": hist}, f_.message))
        stt.case(["registered-again-under-waiting-subroutine"], True, ["fixed:registered-again-under-waiting-subroutine"])
    if ctx.thorough():
        alphabet = [["init", 0, 1], ["init", 1, 2], ["stop", 0], ["stop", 1], ["sub", 0, [["qalloc", 0]]], ["sub", 1, [["qalloc", 0]]], ["sub", 1, [["qalloc", 1]]],
                    ["sub", 0, [["qfree", 0]]], ["sub", 1, [["qfree", 0]]], ["epr", 0, 0], ["epr", 1, 1], ["sub", 0, [["setreg", "R0", 3], ["retreg", "R0"]]]]
        k = 0
        n_enum = 0
        for depth in range(1, 6):
            for hist in itertools.product(range(len(alphabet)), repeat=depth):
                k += 1
                if k % ctx.nshards != ctx.shard:
                    continue
                r = Runner13()
                ok = True
                try:
                    for idx in hist:
                        op = copy.deepcopy(alphabet[idx])
                        if op[0] == "init" and op[1] in r.model:
                            ok = False
                            break
                        if op[0] in ("stop", "sub", "epr") and op[1] not in r.model:
                            ok = False
                            break
                        if op[0] == "epr" and (op[2] in r.model[op[1]].qubits or op[2] >= r.model[op[1]].unit_size):
                            ok = False
                            break
                        r.apply(op)
                except ri.OutOfDomain:
                    ok = False
                except Failure as f:
                    ctx.fail(f)
                    ok = False
                if ok:
                    n_enum += 1
                    stt.case(r.history, r.info["max_alive"] >= 2 and r.info["stops"] >= 1, ["enum"])
        stt.exhaustive_domains["all legal histories up to depth 5 over a 12-letter alphabet"] = n_enum


def replay(case):
    r = Runner13()
    try:
        for op in case["history"]:
            r.apply(copy.deepcopy(op))
    except ri.OutOfDomain:
        return None
    except Failure as f:
        return f
    return None
