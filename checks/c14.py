"""C14 — compiling never runs out of registers because of finished operations.

Long histories of *completed* SDK operations with periodic flushes, run through the full pipeline
with the C05 differential oracle; plus an audit of the builder's active-register set whenever no
operation is open.
"""
from __future__ import annotations

from typing import Any, Dict, List

from hypothesis import strategies as st

from checks import c05
from vlib import hostprog as hp
from vlib.runner import Ctx, Failure

LEVEL = "exploration"
RULE = (
    "histories of 20..400 completed top-level SDK operations (if ctx/cb unary+binary on futures, loop, loop_body, foreach, "
    "enumerate, loop_until, add future/future with and without modulus, measure into array future / implicit array / "
    "register, EPR keep/measure/context operations with and without the Phi+ expectation, loops with registers named by the application) on one connection, one kind repeated or mixed, flush after every k-th "
    "(k drawn 1..10), nesting up to depth 4, plus fixed programs of 8..13 nested loops; oracle: every operation compiles and flushes (no register exhaustion), the "
    "C05 differential oracle holds, and the builder's active-register set is empty whenever no operation is open.  "
    "Measurement windows: 2..8 (thorough ..20) flush windows on one connection, each with 0..16 outcomes kept in registers (store_array=False, "
    "an explicit RegFuture, in-place) and array-stored outcomes in between, the first window being the connection's first subroutine (or after an "
    "initial flush); oracle: every window compiles and flushes, outcomes live together sit in different M registers, every outcome reads the value the device reported.  "
    "Non-trivial = >=17 completed operations of one kind on one connection; distinct by history hash"
)
ASSUMPTIONS = [
    "RegFutures from builder.new_register are live values held by the program and are not generated here",
    "the active-register audit reads Builder._mem_mgr._active_registers (skipped with a note if that attribute disappears)",
    "EPR histories: handles returned by sequential keep requests are released through Qubit.active = False after the post routine consumed the pairs (qubit-id bookkeeping is C09's subject)",
]
SHARDS = {"quick": 4, "thorough": 16}

KINDS = ["if", "loop", "foreach", "until", "add", "qubit"]


@st.composite
def st_history(draw, max_ops=120):
    mode = draw(st.sampled_from(["one-kind", "one-kind", "mixed"]))
    kind = draw(st.sampled_from(KINDS))
    n_ops = draw(st.integers(20, max_ops))
    k_flush = draw(st.integers(1, 10))
    opts = {"max_depth": draw(st.sampled_from([1, 2, 2, 4])), "max_stmts": 10**9, "qubits": 3, "allow_newreg": False, "allow_regm": True,
            "explicit_loop_heavy": draw(st.sampled_from([False, False, True]))}
    g = hp._Gen(draw, opts)
    scope = {"loopvars_fut": [], "fvals": [], "loop_hi": {}, "outer_qubits": [], "own_qubits": [], "in_loop": False}
    stmts: List[Any] = []
    stmts += g.s_newarr(scope, 0)
    stmts += [["newarr", g.n_arr, [draw(st.integers(0, 3)) for _ in range(3)]]]
    g.arrays[g.n_arr] = {"len": 3, "defined": True}
    g.n_arr += 1
    counts: Dict[str, int] = {}
    done = 0
    attempts = 0
    while done < n_ops and attempts < n_ops * 4:
        attempts += 1
        kd = kind if mode == "one-kind" else draw(st.sampled_from(KINDS))
        g.n_stmts = 0
        new = getattr(g, "s_" + kd)(scope, 0)
        if not new:
            if kd in ("if", "add", "foreach", "until"):
                continue
            continue
        # keep the qubit budget: consume top-level qubits regularly
        stmts += new
        for s in new:
            counts[s[0]] = counts.get(s[0], 0) + 1
        done += 1
        if len(scope["own_qubits"]) >= 2:
            q = scope["own_qubits"].pop(0)
            stmts.append(["meas", q, ["elem", 0, 0], False])
        if done % k_flush == 0:
            stmts += g.s_flush(scope, 0)
    stmts.append(["flush"])
    outcomes = draw(st.lists(st.integers(0, 1), min_size=0, max_size=60))
    return {"stmts": stmts, "outcomes": outcomes, "qubits": 3, "meta": {"mode": mode, "kind": kind, "ops": done, "k_flush": k_flush, "counts": counts}}


def check(prog) -> Dict[str, Any]:
    """C05 oracle (register exhaustion surfaces as its 'register-exhaustion' / assembler signature) + register audit."""
    # audit: run the SDK side once more without a controller comparison, inspecting the builder between operations
    from vlib import sim

    info = c05.check({k: prog[k] for k in ("stmts", "outcomes", "qubits")})
    ctrl, conn = sim.fresh(sim.TraceExecutor, max_qubits=5)
    ctrl._executor.outcomes = list(prog["outcomes"])
    run = hp.SdkRun(conn, lambda k: None)
    mm = getattr(conn.builder, "_mem_mgr", None)
    audited = 0
    for s in prog["stmts"]:
        run.run_stmt(s)
        act = getattr(mm, "_active_registers", None)
        if act is None:
            continue
        audited += 1
        if len(act) != 0:
            raise Failure("active-registers-leak:" + s[0], prog, f"after completed top-level operation {s[0]} the builder still has active registers {sorted(map(str, act))} although the program holds no register handles")
    info["audited"] = audited
    return info


EPR_KINDS = ["create_keep", "recv_keep", "create_measure", "recv_measure", "recv_keep_seq", "create_keep_seq", "create_keep_minfid", "recv_keep_minfid", "recv_rsp", "create_rsp",
             "array_undefine", "create_context", "recv_context", "meas16_registers", "recv_keep_noexpect", "recv_keep_seq_noexpect", "recv_rsp_noexpect"]


@st.composite
def st_epr_history(draw, max_ops=60):
    mode = draw(st.sampled_from(["one-kind", "mixed"]))
    kind = draw(st.sampled_from(EPR_KINDS))
    n_ops = draw(st.integers(18, max_ops))
    ops = []
    for _ in range(n_ops):
        k = kind if mode == "one-kind" else draw(st.sampled_from(EPR_KINDS))
        ops.append([k, draw(st.integers(1, 2))])
    return {"epr_ops": ops, "k_flush": draw(st.integers(1, 6)), "hardware": draw(st.sampled_from(["generic", "generic", "nv"])), "meta": {"mode": mode, "kind": kind, "ops": n_ops}}


def check_epr(case) -> Dict[str, Any]:
    """completed EPR operations (pairs are consumed before the next one) must keep compiling and flushing"""
    from netqasm.sdk.build_types import GenericHardwareConfig, NVHardwareConfig
    from netqasm.sdk.epr_socket import EPRSocket
    from vlib import net, sim

    hw = NVHardwareConfig(5) if case["hardware"] == "nv" else GenericHardwareConfig(5)
    sock = EPRSocket("bob")
    ctrl, conn = sim.fresh(sim.TraceExecutor, network_stack_cls=net.ScriptedNetworkStack, epr_sockets=[sock], hardware_config=hw, max_qubits=5)
    stack = ctrl.network_stack
    mm = getattr(conn.builder, "_mem_mgr", None)
    out = conn.new_array(4)
    done = 0
    for i, (k, n) in enumerate(case["epr_ops"]):
        try:
            role = "create" if k.startswith("create") else "recv"
            xkw = {}
            if k.endswith("_noexpect"):
                # the receiver does not ask for Phi+ (no corrections are compiled)
                k = k[: -len("_noexpect")]
                xkw["expect_phi_plus"] = False
            if k == "meas16_registers":
                # one flush window that holds 16 measurement outcomes in registers at once (all M registers), then flushes
                from netqasm.sdk.qubit import Qubit

                conn.flush()
                q16 = Qubit(conn)
                hs = [q16.measure(inplace=True, store_array=False) for _ in range(15)] + [q16.measure(store_array=False)]
                conn.flush()
                if [int(h) for h in hs] != [0] * 16:
                    raise Failure("meas16:values", case, f"16 register-stored outcomes of one qubit in |0> read {[int(h) for h in hs]}")
            elif k in ("create_context", "recv_context"):
                if case["hardware"] == "nv":
                    n = 1  # >=2 pairs on NV hardware never completes (the ids array names a pre-allocated memory qubit; C10's open finding)
                with getattr(sock, k)(number=n) as (q, pair):
                    q.measure(future=out.get_future_index(pair))
                stack.expect(role, "K", n)
                # the body consumed every pair; the qubit handles made for the context stay on the connection's active list
                # (C09's open finding): release them through the public `active` setter so that this check is only about registers
                for h in list(conn.active_qubits):
                    h.active = False
            elif k == "array_undefine":
                # not an EPR operation, but the building block of the retry loops below: a completed array operation
                out.undefine()
            elif k in ("create_keep", "recv_keep", "create_keep_minfid", "recv_keep_minfid", "recv_rsp"):
                if k.endswith("_minfid"):
                    # retry loop of the SDK; the scripted link reports goodness 0, so the first attempt is accepted
                    qs = getattr(sock, k[: -len("_minfid")])(number=n, min_fidelity_all_at_end=80, max_tries=3)
                elif k == "recv_rsp" and case["hardware"] == "nv" and n > 1:
                    qs = sock.recv_rsp(number=1)  # >=2 pairs on NV hardware never completes (C10's open finding)
                    n = 1
                else:
                    qs = getattr(sock, k)(number=n, **xkw)
                stack.expect(role, "K", n)
                for j, q in enumerate(qs):
                    q.measure(future=out.get_future_index(j))
            elif k in ("create_measure", "recv_measure", "create_rsp"):
                getattr(sock, k)(number=n)
                stack.expect(role, "M", n)
            else:
                api = sock.create_keep if role == "create" else sock.recv_keep

                def post(c, q, pair):
                    q.measure(future=out.get_future_index(pair))

                qs = api(number=n, sequential=True, post_routine=post, **xkw)
                stack.expect(role, "K", n)
                # the post routine consumed every pair; the handles returned for them stay active on the connection
                # (C09's open finding): release them through the public `active` setter so that this check is only
                # about registers
                for q in qs:
                    q.active = False
            done += 1
            act = getattr(mm, "_active_registers", None)
            if act:
                raise Failure("active-registers-leak:" + k, case, f"after completed EPR operation {i} ({k}) the builder still has active registers {sorted(map(str, act))}")
            if done % case["k_flush"] == 0:
                conn.flush()
        except Failure:
            raise
        except Exception as e:
            msg = (str(e).splitlines() or [""])[0][:200]
            if "could not find an available" in msg or "Ran out of M-registers" in msg or "no registers left" in msg:
                raise Failure("register-exhaustion:" + k, case, f"EPR operation {i} ({k}) of the history: {type(e).__name__}: {msg}")
            raise Failure(f"epr-history-raises:{k}:{type(e).__name__}", case, f"EPR operation {i} ({k}): {type(e).__name__}: {msg}")
    try:
        conn.flush()
    except Exception as e:
        raise Failure(f"epr-history-raises:flush:{type(e).__name__}", case, f"final flush: {type(e).__name__}: {(str(e).splitlines() or [''])[0][:200]}")
    return {"done": done}


MEAS_KINDS = ["reg", "regfut", "reg_inplace", "arr", "implicit"]
N_MREGS = 16  # size of the M bank (register index is 4 bits); an independent constant of the instruction set


@st.composite
def st_meas_windows(draw, max_windows=8):
    """flush windows of measurements whose outcomes stay in registers until the flush (at most 16 live at once, the size of
    the M bank), the first window being the connection's first subroutine; array-stored outcomes (which need one free
    M register for a moment) in between"""
    n_win = draw(st.integers(2, max_windows))
    windows = []
    total = 0
    for _w in range(n_win):
        target = draw(st.one_of(st.integers(0, N_MREGS), st.sampled_from([1, 7, 8, 9, 12, 15, 16, 16])))
        p_arr = draw(st.sampled_from([0, 0, 1, 3]))  # how often an array-stored outcome is interleaved (x/10)
        items = []
        regs = 0
        while regs < target:
            if p_arr and regs < N_MREGS and draw(st.integers(0, 9)) < p_arr:
                items.append([draw(st.sampled_from(["arr", "implicit"])), draw(st.booleans())])
                continue
            items.append([draw(st.sampled_from(["reg", "reg", "regfut", "reg_inplace"])), draw(st.booleans())])
            regs += 1
        if regs < N_MREGS and draw(st.booleans()):
            items.append([draw(st.sampled_from(["arr", "implicit"])), draw(st.booleans())])
        windows.append(items)
        total += len(items)
    outcomes = draw(st.lists(st.integers(0, 1), min_size=total, max_size=total))
    return {"meas_windows": windows, "outcomes": outcomes, "first_after_flush": draw(st.sampled_from([False, False, False, True]))}


def check_meas_windows(case) -> Dict[str, Any]:
    """every window compiles and flushes whatever was measured and flushed before; outcomes that are live together sit in
    different registers; every outcome read after its flush is the one the device reported"""
    from netqasm.sdk.futures import RegFuture
    from netqasm.sdk.qubit import Qubit
    from vlib import sim

    ctrl, conn = sim.fresh(sim.TraceExecutor, max_qubits=5)
    ctrl._executor.outcomes = list(case["outcomes"])
    expected = list(case["outcomes"])
    mm = getattr(conn.builder, "_mem_mgr", None)
    out = conn.new_array(1)
    if case.get("first_after_flush"):
        conn.flush()
    n_meas = 0
    regs_total = 0
    for w, items in enumerate(case["meas_windows"]):
        handles = []
        live = []
        for j, (kind, had) in enumerate(items):
            try:
                q = Qubit(conn)
                if had:
                    q.H()
                if kind == "reg":
                    h = q.measure(store_array=False)
                elif kind == "regfut":
                    h = q.measure(future=RegFuture(conn))
                elif kind == "reg_inplace":
                    h = q.measure(inplace=True, store_array=False)
                    q.free()
                elif kind == "arr":
                    h = q.measure(future=out.get_future_index(0))
                else:
                    h = q.measure()
            except Exception as e:
                msg = (str(e).splitlines() or [""])[0][:200]
                sig = "register-exhaustion:meas-window" if ("M-registers" in msg or "could not find an available" in msg or "no registers left" in msg) else f"meas-window-raises:{type(e).__name__}"
                raise Failure(sig, case, f"window {w} (windows before it were flushed; register outcomes in them: {[sum(1 for k, _ in x if k.startswith('reg')) for x in case['meas_windows'][:w]]}): measurement {j} ({kind}) with {len(live)} register outcomes live in this window did not compile: {type(e).__name__}: {msg}")
            if kind.startswith("reg"):
                r = str(h.reg)
                if r in live:
                    raise Failure("meas-window:live-outcomes-share-register", case, f"window {w}: measurement {j} ({kind}) got register {r}, which holds a live outcome of this window ({live})")
                live.append(r)
                regs_total += 1
            handles.append((kind, h, expected[n_meas]))
            n_meas += 1
        try:
            conn.flush()
        except Exception as e:
            raise Failure(f"meas-window-raises:flush:{type(e).__name__}", case, f"flush of window {w}: {type(e).__name__}: {(str(e).splitlines() or [''])[0][:200]}")
        # `arr` outcomes share one entry: only the last one of a window can be read back; the others are checked through the device log
        last_arr = max([i for i, (k, _h, _e) in enumerate(handles) if k == "arr"], default=None)
        for i, (kind, h, exp) in enumerate(handles):
            if kind == "arr" and i != last_arr:
                continue
            got = h.value if kind in ("arr", "implicit") else int(h)
            if got != exp:
                raise Failure("meas-window:outcome-value", case, f"window {w}: outcome {i} ({kind}) reads {got!r} after the flush, the device reported {exp}")
        act = getattr(mm, "_active_registers", None)
        if act:
            raise Failure("active-registers-leak:meas-window", case, f"after flushed window {w} the builder still has active registers {sorted(map(str, act))}")
    if ctrl._executor.outcome_log != expected[:n_meas]:
        raise Failure("meas-window:device-log", case, f"the device performed {len(ctrl._executor.outcome_log)} measurements, the program made {n_meas}")
    return {"measurements": n_meas, "regs_total": regs_total}


def deep_program(d: int, style: str) -> Dict[str, Any]:
    """d nested loops (1..2 iterations each) with additions at several levels: one live counter per open loop plus temporaries"""
    body: List[Any] = [["add", ["elem", 0, 0], 1, None]]
    for level in range(d):
        extra = [["add", ["elem", 1, 0], 1, None]] if level % 3 == 0 else []
        body = [["loop", style, level, 0, 2 if level % 4 == 0 else 1, 1, body + extra]]
    return {"stmts": [["newarr", 0, [0]], ["newarr", 1, [0, 1]]] + body + [["flush"]], "outcomes": [], "qubits": 3, "meta": {"mode": "deep", "kind": "loop", "ops": 1, "k_flush": 1, "counts": {}}}


def shard(ctx: Ctx) -> None:
    stt = ctx.stats
    if ctx.shard == 0:
        # nesting close to the register budget (the number of registers needed depends on the nesting depth only)
        for d in (8, 9, 10, 11, 12, 13):
            for style in ("ctx", "body"):
                prog_d = deep_program(d, style)
                ctx.attempt(prog_d, check, prog_d)
                stt.case(["deep", d, style], True, ["deep-nesting", f"depth:{d}"])
    n_epr = 12 if ctx.tier == "quick" else 200

    def body_epr(case):
        check_epr(case)
        meta = case["meta"]
        kinds = [k for k, _n in case["epr_ops"]]
        nt = any(kinds.count(k) >= 17 for k in set(kinds))
        stt.labels["operations-total"] += meta["ops"]
        stt.case(case, nt, ["epr-history", f"mode:{meta['mode']}", case["hardware"]] + ([f"kind:{meta['kind']}"] if meta["mode"] == "one-kind" else []), sample={"meta": meta, "first": case["epr_ops"][:4]})

    ctx.search(st_epr_history(60 if ctx.tier == "quick" else 200), body_epr, n_epr, name="c14-epr", salt=5)
    n_mw = 16 if ctx.tier == "quick" else 300

    def body_mw(case):
        info = check_meas_windows(case)
        sizes = [sum(1 for k, _ in w if k.startswith("reg")) for w in case["meas_windows"]]
        labels = ["meas-windows", f"windows:{len(sizes)}"]
        if sizes[0] > 0 and not case["first_after_flush"]:
            labels.append("meas-windows:register-outcomes-in-first-subroutine")
        if any(x == N_MREGS for x in sizes):
            labels.append("meas-windows:all-16-live")
        if any(a > 0 and b >= 9 for a, b in zip(sizes, sizes[1:])):
            labels.append("meas-windows:>=9-after-nonempty")
        stt.labels["operations-total"] += info["measurements"]
        stt.case(case, info["regs_total"] >= 17, labels, sample={"register_outcomes_per_window": sizes, "first_after_flush": case["first_after_flush"]})

    ctx.search(st_meas_windows(8 if ctx.tier == "quick" else 20), body_mw, n_mw, name="c14-meas-windows", salt=9)
    n = 30 if ctx.tier == "quick" else 600
    max_ops = 120 if ctx.tier == "quick" else 400

    def body(prog):
        meta = prog["meta"]
        try:
            info = check(prog)
        except hp.OutOfDomainProgram as e:
            stt.rejected["out-of-domain:" + str(e)] += 1
            stt.evaluations += 1
            return
        except Failure as f:
            # re-label the C05 signatures that are this property's subject
            if f.signature in ("register-exhaustion",) or "reg_and_set_cmd" in f.signature:
                raise Failure("register-exhaustion:" + (meta["kind"] if meta["mode"] == "one-kind" else "mixed"), f.case, f.message)
            raise
        counts = meta["counts"]
        nt = any(v >= 17 for v in counts.values())
        labels = [f"mode:{meta['mode']}", f"kind:{meta['kind']}" if meta["mode"] == "one-kind" else "kind:mixed", f"k_flush:{meta['k_flush']}", f"ops>={(meta['ops'] // 50) * 50}", f"depth:{info['depth']}"]
        if info.get("audited"):
            labels.append("audited")
        stt.labels["operations-total"] += meta["ops"]
        stt.case(prog["stmts"], nt, labels, sample={"meta": meta, "first_statements": prog["stmts"][:6]})

    ctx.search(st_history(max_ops), body, n, name="c14")


def replay(case):
    try:
        if "epr_ops" in case:
            check_epr(case)
            return None
        if "meas_windows" in case:
            check_meas_windows(case)
            return None
        check(case)
    except hp.OutOfDomainProgram:
        return None
    except Failure as f:
        return f
    return None
