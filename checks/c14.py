"""C14 — compiling never runs out of registers because of finished operations.

Long histories of *completed* SDK operations with periodic flushes, run through the full pipeline
with the C05 differential oracle; plus an audit of the builder's active-register set whenever no
operation is open.
"""
from __future__ import annotations

from typing import Any, Dict, List

from hypothesis import strategies as st

from checks import c05
from vlib import hostprog as hp
from vlib.runner import Ctx, Failure

LEVEL = "exploration"
RULE = (
    "histories of 20..400 completed top-level SDK operations (if ctx/cb unary+binary on futures, loop, loop_body, foreach, "
    "enumerate, loop_until, add future/future with and without modulus, measure into array future / implicit array / "
    "register, EPR keep/measure/context operations) on one connection, one kind repeated or mixed, flush after every k-th "
    "(k drawn 1..10), nesting up to depth 4; oracle: every operation compiles and flushes (no register exhaustion), the "
    "C05 differential oracle holds, and the builder's active-register set is empty whenever no operation is open.  "
    "Non-trivial = >=17 completed operations of one kind on one connection; distinct by history hash"
)
ASSUMPTIONS = [
    "RegFutures from builder.new_register are live values held by the program and are not generated here",
    "the active-register audit reads Builder._mem_mgr._active_registers (skipped with a note if that attribute disappears)",
]
SHARDS = {"quick": 4, "thorough": 16}

KINDS = ["if", "loop", "foreach", "until", "add", "qubit"]


@st.composite
def st_history(draw, max_ops=120):
    mode = draw(st.sampled_from(["one-kind", "one-kind", "mixed"]))
    kind = draw(st.sampled_from(KINDS))
    n_ops = draw(st.integers(20, max_ops))
    k_flush = draw(st.integers(1, 10))
    opts = {"max_depth": draw(st.sampled_from([1, 2, 2, 4])), "max_stmts": 10**9, "qubits": 3, "allow_newreg": False, "allow_regm": True}
    g = hp._Gen(draw, opts)
    scope = {"loopvars_fut": [], "fvals": [], "loop_hi": {}, "outer_qubits": [], "own_qubits": [], "in_loop": False}
    stmts: List[Any] = []
    stmts += g.s_newarr(scope, 0)
    stmts += [["newarr", g.n_arr, [draw(st.integers(0, 3)) for _ in range(3)]]]
    g.arrays[g.n_arr] = {"len": 3, "defined": True}
    g.n_arr += 1
    counts: Dict[str, int] = {}
    done = 0
    attempts = 0
    while done < n_ops and attempts < n_ops * 4:
        attempts += 1
        kd = kind if mode == "one-kind" else draw(st.sampled_from(KINDS))
        g.n_stmts = 0
        new = getattr(g, "s_" + kd)(scope, 0)
        if not new:
            if kd in ("if", "add", "foreach", "until"):
                continue
            continue
        # keep the qubit budget: consume top-level qubits regularly
        stmts += new
        for s in new:
            counts[s[0]] = counts.get(s[0], 0) + 1
        done += 1
        if len(scope["own_qubits"]) >= 2:
            q = scope["own_qubits"].pop(0)
            stmts.append(["meas", q, ["elem", 0, 0], False])
        if done % k_flush == 0:
            stmts += g.s_flush(scope, 0)
    stmts.append(["flush"])
    outcomes = draw(st.lists(st.integers(0, 1), min_size=0, max_size=60))
    return {"stmts": stmts, "outcomes": outcomes, "qubits": 3, "meta": {"mode": mode, "kind": kind, "ops": done, "k_flush": k_flush, "counts": counts}}


def check(prog) -> Dict[str, Any]:
    """C05 oracle (register exhaustion surfaces as its 'register-exhaustion' / assembler signature) + register audit."""
    # audit: run the SDK side once more without a controller comparison, inspecting the builder between operations
    from vlib import sim

    info = c05.check({k: prog[k] for k in ("stmts", "outcomes", "qubits")})
    ctrl, conn = sim.fresh(sim.TraceExecutor, max_qubits=5)
    ctrl._executor.outcomes = list(prog["outcomes"])
    run = hp.SdkRun(conn, lambda k: None)
    mm = getattr(conn.builder, "_mem_mgr", None)
    audited = 0
    for s in prog["stmts"]:
        run.run_stmt(s)
        act = getattr(mm, "_active_registers", None)
        if act is None:
            continue
        audited += 1
        if len(act) != 0:
            raise Failure("active-registers-leak:" + s[0], prog, f"after completed top-level operation {s[0]} the builder still has active registers {sorted(map(str, act))} although the program holds no register handles")
    info["audited"] = audited
    return info


def shard(ctx: Ctx) -> None:
    stt = ctx.stats
    n = 30 if ctx.tier == "quick" else 600
    max_ops = 120 if ctx.tier == "quick" else 400

    def body(prog):
        meta = prog["meta"]
        try:
            info = check(prog)
        except hp.OutOfDomainProgram as e:
            stt.rejected["out-of-domain:" + str(e)] += 1
            stt.evaluations += 1
            return
        except Failure as f:
            # re-label the C05 signatures that are this property's subject
            if f.signature in ("register-exhaustion",) or "reg_and_set_cmd" in f.signature:
                raise Failure("register-exhaustion:" + (meta["kind"] if meta["mode"] == "one-kind" else "mixed"), f.case, f.message)
            raise
        counts = meta["counts"]
        nt = any(v >= 17 for v in counts.values())
        labels = [f"mode:{meta['mode']}", f"kind:{meta['kind']}" if meta["mode"] == "one-kind" else "kind:mixed", f"k_flush:{meta['k_flush']}", f"ops>={(meta['ops'] // 50) * 50}", f"depth:{info['depth']}"]
        if info.get("audited"):
            labels.append("audited")
        stt.labels["operations-total"] += meta["ops"]
        stt.case(prog["stmts"], nt, labels, sample={"meta": meta, "first_statements": prog["stmts"][:6]})

    ctx.search(st_history(max_ops), body, n, name="c14")


def replay(case):
    try:
        check(case)
    except hp.OutOfDomainProgram:
        return None
    except Failure as f:
        return f
    return None
