"""C11 — EPR requests and results cross the SDK/controller boundary intact."""
from __future__ import annotations

from typing import Any, Dict, List

from hypothesis import strategies as st

from vlib.runner import Ctx, Failure

LEVEL = "exploration"
RULE = (
    "Hypothesis-generated EPR calls: role x API (create_keep[_with_info], create_measure, create_rsp, create_context, recv_context, recv_keep[_with_info], "
    "recv_measure, recv_rsp[_with_info]) x pairs 1..4 x time_unit (all members) / max_time x named bases / rotation triples "
    "0..31 / random-basis sets (all members, both sides) x socket ids x remote node x hardware {generic, NV} x sequential+"
    "post-routine; responses with pairwise different field values (small and large counters), native or as qlink-interface 1.0 objects (Bell state by enum or plain integer); "
    "a quarter of the sockets served another connection with another node numbering before; a third of the responses carry their two-valued fields "
    "(measurement outcome, directionality flag) as bool, the type qlink-interface 1.0 declares for them; a quarter of the cases run as the second application on "
    "a controller whose first application (closed before) used an EPR socket with the same or another (remote node, socket id) against another remote socket, "
    "with a stack whose purpose ids are either socket id + k or a function of the remote socket id registered by setup_epr_socket.  Oracle: the LinkLayerCreate seen by a recording stack "
    "equals the call's parameters field by field (documented defaults otherwise) and converts with request_to_qlink_1_0; "
    "result handle i reads response i.  Non-trivial = >=2 pairs or a non-default parameter; distinct by call tuple"
)
ASSUMPTIONS = [
    "purpose id = EPR socket id + k, or 11 + 5 * (remote socket id registered for (remote node, socket id)) + socket id + k (the harness stack's get_purpose_id); "
    "either way it is what the stack answers at the time of the request",
    "creator-side R (remote state preparation) results are delivered as measure-type responses, receiver-side as keep-type",
]
SHARDS = {"quick": 2, "thorough": 16}

CREATE_APIS = ["create_keep", "create_keep_with_info", "create_measure", "create_rsp", "create:K", "create:M", "create:R", "create_context"]
RECV_APIS = ["recv_keep", "recv_keep_with_info", "recv_measure", "recv_rsp", "recv_rsp_with_info", "recv:K", "recv:M", "recv:R", "recv_context"]
# "create:X" / "recv:X" are the deprecated generic entry points EPRSocket.create(tp=...) / EPRSocket.recv(tp=...)
CANON = {"create:K": "create_keep", "create:M": "create_measure", "create:R": "create_rsp", "recv:K": "recv_keep", "recv:M": "recv_measure", "recv:R": "recv_rsp"}


CREATE_FIELDS = ["remote_node_id", "purpose_id", "type", "number", "random_basis_local", "random_basis_remote", "minimum_fidelity", "time_unit", "max_time", "priority",
                 "atomic", "consecutive", "probability_dist_local1", "probability_dist_local2", "probability_dist_remote1", "probability_dist_remote2",
                 "rotation_X_local1", "rotation_Y_local", "rotation_X_local2", "rotation_X_remote1", "rotation_Y_remote", "rotation_X_remote2"]


def tp_of(api: str) -> str:
    return "K" if api in ("create_keep", "create_keep_with_info", "recv_keep", "recv_keep_with_info", "recv_rsp", "recv_rsp_with_info", "create_context", "recv_context") else "M"


@st.composite
def st_case(draw):
    from netqasm.qlink_compat import RandomBasis, TimeUnit
    from netqasm.sdk.build_epr import EprMeasBasis

    role = draw(st.sampled_from(["create", "recv"]))
    api = draw(st.sampled_from(CREATE_APIS if role == "create" else RECV_APIS))
    number = draw(st.integers(1, 4))
    if api in ("create_measure", "create_rsp", "create:M", "create:R", "recv_measure", "recv:M") and draw(st.booleans()):
        number = draw(st.integers(5, 9))  # nothing is kept on this node: the qubit budget (5) does not limit the pair count
    case: Dict[str, Any] = {
        "role": role,
        "api": api,
        "number": number,
        "socket_id": draw(st.sampled_from([0, 0, 1, 3])),
        "remote_socket_id": draw(st.sampled_from([0, 2])),
        "remote": draw(st.sampled_from(["bob", "charlie"])),
        "hardware": draw(st.sampled_from(["generic", "generic", "nv"])),
        "kw": {},
    }
    kw = case["kw"]
    alias = api if ":" in api else None
    api = CANON.get(api, api)
    case["api"] = api
    case["alias"] = alias
    if role == "create":
        if draw(st.integers(0, 1)):
            kw["time_unit"] = draw(st.sampled_from([t.name for t in TimeUnit]))
        if draw(st.integers(0, 1)):
            kw["max_time"] = draw(st.sampled_from([0, 1, 1000, 65535]) | st.integers(0, 2**20))
        if api in ("create_measure", "create_rsp"):
            sides = ["local", "remote"] if api == "create_measure" else ["local"]
            mode = draw(st.sampled_from(["default", "basis", "rotations", "random", "mixed", "mixed"]))
            for side in sides:
                m = mode if mode != "mixed" else draw(st.sampled_from(["default", "basis", "rotations", "random", "random+basis", "random+rotations", "basis+rotations"]))
                if "basis" in m.split("+"):
                    kw["basis_" + side] = draw(st.sampled_from([b.name for b in EprMeasBasis]))
                if "rotations" in m.split("+"):
                    kw["rotations_" + side] = [draw(st.integers(0, 31)) for _ in range(3)]
                if "random" in m.split("+"):
                    # a random-basis set travels next to the fixed rotations / named basis; neither replaces the other
                    kw["random_basis_" + side] = draw(st.sampled_from([b.name for b in RandomBasis]))
        if api in ("create_keep", "create_keep_with_info") and draw(st.integers(0, 4)) == 0:
            kw["sequential"] = True
        if api == "create_context" and draw(st.booleans()):
            kw["sequential"] = True
    elif api == "recv_context":
        if draw(st.booleans()):
            kw["sequential"] = True
    else:
        if draw(st.integers(0, 1)):
            kw["expect_phi_plus"] = draw(st.booleans())
        if api in ("recv_keep", "recv_keep_with_info") and draw(st.integers(0, 4)) == 0:
            kw["sequential"] = True
    resp = []
    # (every field of a response is a 32-bit integer for the controller: large counters are as good as small ones)
    base = draw(st.integers(1, 1000) | st.integers(1, 1000) | st.integers(1, 1000) | st.sampled_from([65500, 2**16, 2**20 + 5, 2**31 - 200, 2**31 + 7, 3_000_000_000]))
    for i in range(number):
        resp.append(
            {
                "create_id": base + 17 * i + 1,
                "sequence_number": base + 17 * i + 2,
                "goodness": base + 17 * i + 3,
                "goodness_time": base + 17 * i + 4,
                "bell_state": draw(st.integers(0, 3)),
                "bell_as_enum": draw(st.booleans()),
                "measurement_outcome": draw(st.integers(0, 1)),
                "measurement_basis": draw(st.integers(0, 4)),
            }
        )
    case["responses"] = resp
    # the responses may come as qlink-interface 1.0 objects (Bell state named with that package's enum, or a plain integer,
    # which qlink_compat documents as passed through unchanged)
    case["wire"] = draw(st.sampled_from([None, None, None, "qlink10", "qlink10-int"]))
    # the socket object may have served another connection before, under another numbering of the nodes
    case["reused_socket"] = draw(st.sampled_from([None, None, None, {"alice": 3, "bob": 7, "charlie": 1}]))
    # receiver side: the remote node may have started already, so all responses can reach the controller before the receive
    # instruction has run
    case["early"] = role == "recv" and draw(st.integers(0, 2)) == 0
    # node numbering (the remote node may well be node 0) and the stack's own purpose ids (socket id + k)
    case["node_ids"] = draw(st.sampled_from([None, None, {"alice": 5, "bob": 0, "charlie": 2}, {"alice": 1, "bob": 2, "charlie": 0}]))
    case["purpose_offset"] = draw(st.sampled_from([0, 0, 3]))
    if draw(st.integers(0, 2)) == 0:
        # an earlier, completed request on the same socket and connection (its handles must keep reading its own responses)
        n1 = draw(st.integers(1, 2))
        twin = role == "create" and api in ("create_keep", "create_measure") and not kw.get("sequential") and draw(st.booleans())
        if twin:
            # the same kind of request, with the same number of pairs, differing in one parameter only
            n1 = number if api == "create_measure" or number <= 2 else n1
            bkw = {k: v for k, v in kw.items() if k in ("time_unit", "max_time")}
            bkw.setdefault("max_time", draw(st.sampled_from([1, 1000])))
            kw.setdefault("max_time", bkw["max_time"])
            which = draw(st.sampled_from(["time_unit", "max_time"]))
            if which == "time_unit":
                bkw["max_time"] = kw["max_time"] if kw["max_time"] else 7
                kw["max_time"] = bkw["max_time"]
                units = [t.name for t in TimeUnit]
                bkw["time_unit"] = draw(st.sampled_from([u for u in units if u != kw.get("time_unit", "MICRO_SECONDS")]))
            else:
                bkw["max_time"] = kw["max_time"] + 1
        # (receiver side, generic hardware: the earlier request may be a sequential keep whose later pair has to wait for its
        # virtual qubit while the responses of the request proper are already there)
        seq_before = not twin and role == "recv" and case["hardware"] == "generic" and tp_of(api) == "M" and draw(st.booleans())
        if seq_before:
            n1 = 2
        case["before"] = {
            "api": "recv_keep" if seq_before else api if twin else draw(st.sampled_from(["recv_measure", "create_measure", "recv_keep", "create_keep"])),
            "sequential": seq_before,  # (then every response is there before the program starts: "early" below)
            "kw": bkw if twin else {},
            "number": n1,
            "flush": draw(st.booleans()) and not seq_before,
            "responses": [{"create_id": 7000 + 13 * i, "sequence_number": 7001 + 13 * i, "goodness": 7002 + 13 * i, "goodness_time": 7003 + 13 * i,
                           "bell_state": draw(st.integers(0, 3)), "measurement_outcome": draw(st.integers(0, 1)), "measurement_basis": 0} for i in range(n1)],
        }
    if case.get("before", {}).get("sequential"):
        case["early"] = True
    # the two-valued fields of a response (measurement outcome, directionality flag) may be bool objects: qlink-interface 1.0
    # declares them so, and the controller hands a response's fields on as they are
    case["flags"] = draw(st.sampled_from([None, None, "bool"]))
    # the controller may have run another application before (closed by now) whose EPR socket had the same or another
    # (remote node, socket id) and was opened against another remote socket; the stack's purpose ids may depend on what
    # setup_epr_socket registered (purpose_table) instead of on the socket id alone
    case["previous_app"] = None
    if draw(st.integers(0, 3)) == 0:
        p_api = draw(st.sampled_from(["create_measure", "recv_measure", "create_keep", "recv_keep"]))
        p_n = draw(st.integers(1, 2))
        case["previous_app"] = {
            "api": p_api,
            "number": p_n,
            "socket_id": draw(st.sampled_from([case["socket_id"], case["socket_id"], case["socket_id"], 2])),
            "remote": draw(st.sampled_from([case["remote"], case["remote"], "bob", "charlie"])),
            "remote_socket_id": draw(st.sampled_from([0, 2, 4, 7])),
            "responses": [{"create_id": 9000 + 11 * i, "sequence_number": 9001 + 11 * i, "goodness": 9002 + 11 * i, "goodness_time": 9003 + 11 * i,
                           "bell_state": draw(st.integers(0, 3)), "measurement_outcome": draw(st.integers(0, 1)), "measurement_basis": 0} for i in range(p_n)],
        }
    case["purpose_table"] = draw(st.booleans()) if case["previous_app"] else draw(st.integers(0, 3)) == 0
    return case


def table_stack_cls():
    """ScriptedNetworkStack whose purpose id for (remote node, socket id) is a function of the remote socket id that
    setup_epr_socket registered last for that pair (the two nodes of a link agree on such a number)."""
    from vlib import net

    class TableStack(net.ScriptedNetworkStack):
        def __init__(self, executor):
            super().__init__(executor)
            self.table: Dict[Any, int] = {}
            self.use_table = False

        def setup_epr_socket(self, epr_socket_id, remote_node_id, remote_epr_socket_id, timeout=1.0):
            self.table[remote_node_id, epr_socket_id] = remote_epr_socket_id
            return super().setup_epr_socket(epr_socket_id, remote_node_id, remote_epr_socket_id, timeout=timeout)

        def get_purpose_id(self, remote_node_id: int, epr_socket_id: int) -> int:
            if not self.use_table:
                return super().get_purpose_id(remote_node_id, epr_socket_id)
            return 11 + 5 * self.table[remote_node_id, epr_socket_id] + epr_socket_id + self.purpose_offset

    return TableStack


def purpose_of(case, socket_id: int, remote_socket_id: int) -> int:
    """the oracle's own account of the stack's numbering"""
    off = case.get("purpose_offset", 0)
    if case.get("purpose_table"):
        return 11 + 5 * remote_socket_id + socket_id + off
    return socket_id + off


def check(case) -> Dict[str, Any]:
    from netqasm.qlink_compat import BellState, LinkLayerCreate, RandomBasis, RequestType, TimeUnit, request_to_qlink_1_0
    from netqasm.sdk.build_epr import EprMeasBasis, basis_to_rotation
    from netqasm.sdk.build_types import GenericHardwareConfig, NVHardwareConfig
    from netqasm.sdk.epr_socket import EPRSocket
    from vlib import net, sim

    api = case["api"]
    number = case["number"]
    role = case["role"]
    sock = EPRSocket(case["remote"], epr_socket_id=case["socket_id"], remote_epr_socket_id=case["remote_socket_id"])
    hw = NVHardwareConfig(5) if case["hardware"] == "nv" else GenericHardwareConfig(5)
    node_ids = case.get("node_ids") or {"alice": 0, "bob": 1, "charlie": 2}
    if case.get("reused_socket"):
        _c0, conn0 = sim.fresh(sim.TraceExecutor, network_stack_cls=net.ScriptedNetworkStack, epr_sockets=[sock], hardware_config=hw, max_qubits=5, node_ids=dict(case["reused_socket"]))
        conn0.flush()
        conn0.close()
    bool_flags = case.get("flags") == "bool"
    prev = case.get("previous_app")
    ev0 = 0
    if prev:
        # an earlier application on the same controller, finished and closed before the one under test starts
        sock_p = EPRSocket(prev["remote"], epr_socket_id=prev["socket_id"], remote_epr_socket_id=prev["remote_socket_id"])
        ctrl, conn_p = sim.fresh(sim.TraceExecutor, network_stack_cls=table_stack_cls(), epr_sockets=[sock_p], hardware_config=hw, max_qubits=5, node_ids=node_ids)
        stack = ctrl.network_stack
        stack.purpose_offset = case.get("purpose_offset", 0)
        stack.use_table = bool(case.get("purpose_table"))
        p_role = "create" if prev["api"].startswith("create") else "recv"
        p_tp = "K" if prev["api"].endswith("keep") else "M"
        p_purpose = purpose_of(case, prev["socket_id"], prev["remote_socket_id"])
        p_result = getattr(sock_p, prev["api"])(number=prev["number"])
        p_fields = [dict(r) for r in prev["responses"]]
        if bool_flags:
            for f in p_fields:
                f["measurement_outcome"] = bool(f["measurement_outcome"])
                f["directionality_flag"] = p_role == "recv"
        stack.expect(p_role, p_tp, prev["number"], p_fields, remote_node_id=node_ids[prev["remote"]], purpose_id=p_purpose)
        if p_tp == "K":
            for q in p_result:
                q.measure()
        try:
            conn_p.flush()
        except sim.WouldBlock:
            raise Failure(f"blocks:previous-application:{prev['api']}", case, f"{prev['api']} of an earlier application on the controller: the program waits forever although its responses were offered")
        if p_role == "create":
            if len(stack.requests) != 1:
                raise Failure("request-count:previous-application", case, f"stack received {len(stack.requests)} requests from the earlier application's {prev['api']}")
            for fld, want_p in (("purpose_id", p_purpose), ("remote_node_id", node_ids[prev["remote"]]), ("number", prev["number"])):
                if getattr(stack.requests[0], fld) != want_p:
                    raise Failure(f"request-field:{fld}:previous-application", case, f"{prev['api']} of an earlier application: network stack received {fld}={getattr(stack.requests[0], fld)!r}, the call asked for {want_p!r}")
        conn_p.close()
        if stack.plan:
            raise Failure("responses-not-consumed:previous-application", case, f"{len(stack.plan)} scripted responses of the earlier application were never waited for")
        # the recording starts afresh for the application under test
        stack.requests.clear()
        stack.delivered.clear()
        stack.n_create_expected = 0
        ev0 = len(getattr(ctrl._executor, "events", []))
        ctrl, conn = sim.fresh(sim.TraceExecutor, ctrl=ctrl, reset=False, epr_sockets=[sock], hardware_config=hw, max_qubits=5, node_ids=node_ids)
    else:
        ctrl, conn = sim.fresh(sim.TraceExecutor, network_stack_cls=table_stack_cls(), epr_sockets=[sock], hardware_config=hw, max_qubits=5, node_ids=node_ids)
    stack = ctrl.network_stack
    stack.purpose_offset = case.get("purpose_offset", 0)
    stack.use_table = bool(case.get("purpose_table"))
    remote_id = node_ids[case["remote"]]
    purpose = purpose_of(case, case["socket_id"], case["remote_socket_id"])
    kw: Dict[str, Any] = {}
    for k, v in case["kw"].items():
        if k == "time_unit":
            kw[k] = TimeUnit[v]
        elif k.startswith("basis_"):
            kw[k] = EprMeasBasis[v]
        elif k.startswith("random_basis_"):
            kw[k] = RandomBasis[v]
        elif k.startswith("rotations_"):
            kw[k] = tuple(v)
        else:
            kw[k] = v
    before = case.get("before")
    n_before = 0
    before_result = None
    if before:
        b_role = "create" if before["api"].startswith("create") else "recv"
        b_tp = "K" if before["api"].endswith("keep") else "M"
        bkw2 = {k: (TimeUnit[v] if k == "time_unit" else v) for k, v in before.get("kw", {}).items()}
        if before.get("sequential"):
            seq_out = conn.new_array(before["number"])
            bkw2.update(sequential=True, post_routine=lambda c, q, pair: q.measure(future=seq_out.get_future_index(pair)))
        before_result = getattr(sock, before["api"])(number=before["number"], **bkw2)
        b_fields = [dict(r) for r in before["responses"]]
        if bool_flags:
            for f in b_fields:
                f["measurement_outcome"] = bool(f["measurement_outcome"])
                f["directionality_flag"] = b_role == "recv"
        stack.expect(b_role, b_tp, before["number"], b_fields, remote_node_id=remote_id, purpose_id=purpose)
        if before.get("sequential"):
            pass  # the post routine consumes the pairs
        elif b_tp == "K":
            for q in before_result:
                q.measure()
        n_before = before["number"]
        if before["flush"]:
            try:
                conn.flush()
            except sim.WouldBlock:
                raise Failure(f"blocks:{before['api']}", case, f"{before['api']} (issued first): the program waits forever although its responses were offered")
    outcomes_arr = None
    is_ctx = api in ("create_context", "recv_context")
    if kw.get("sequential") and not is_ctx:
        outcomes_arr = conn.new_array(number)

        def post(c, q, pair):
            q.measure(future=outcomes_arr.get_future_index(pair))

        kw["post_routine"] = post
    try:
        if case.get("alias"):
            from netqasm.qlink_compat import EPRType

            tp = EPRType[case["alias"].split(":")[1]]
            if role == "create":
                result = sock.create(number=number, tp=tp, **kw)
            else:
                kw.pop("expect_phi_plus", None)
                result = sock.recv(number=number, tp=tp, **kw)
        elif is_ctx:
            # the context-manager entry points: the body runs once per pair on that pair's qubit
            outcomes_arr = conn.new_array(number)
            with getattr(sock, api)(number=number, **kw) as (q, pair):
                q.measure(future=outcomes_arr.get_future_index(pair))
            result = None
        else:
            result = getattr(sock, api)(number=number, **kw)
    except ValueError as e:
        # every generated call is valid (sequential requests for several pairs come with a post routine, kept pairs fit the budget)
        raise Failure(f"call-rejected:{api}", case, f"{api}(number={number}, {case['kw']}) was rejected: ValueError: {str(e)[:160]}")
    tp = "K" if api in ("create_keep", "create_keep_with_info", "recv_keep", "recv_keep_with_info", "recv_rsp", "recv_rsp_with_info", "create_context", "recv_context") else "M"
    fields = []
    for i, r in enumerate(case["responses"]):
        f = {k: v for k, v in r.items() if k != "bell_as_enum"}
        if r["bell_as_enum"]:
            f["bell_state"] = BellState(r["bell_state"])
        if case.get("wire"):
            f["as_qlink10"] = True
            f["qlink10_int"] = case["wire"] == "qlink10-int"
        if bool_flags:
            # (the directionality flag tells the controller which side asked: it has to agree with the role)
            f["measurement_outcome"] = bool(f["measurement_outcome"])
            f["directionality_flag"] = role == "recv"
        fields.append(f)
    stack.expect(role, tp, number, fields, remote_node_id=remote_id, purpose_id=purpose)
    if case.get("early") and role == "recv":
        stack.deliver_eagerly()
    try:
        conn.flush()
    except sim.WouldBlock:
        # on single-communication-qubit hardware a state-preparation / context request for >= 2 pairs waits for a response that
        # cannot be applied (qubit-id assignment, C09/C10's subject and open finding): inconclusive for this property.
        # Anywhere else a wait that never ends means the responses did not reach the request.
        if role == "create" and stack.requests and stack.requests[-1].purpose_id != purpose:
            # (the request went out for another socket: that is why its responses are not recognised)
            raise Failure("request-field:purpose_id", case, f"{api}: network stack received purpose_id={stack.requests[-1].purpose_id!r}, the stack's purpose id for socket {case['socket_id']} (remote socket {case['remote_socket_id']}) is {purpose!r}; the program then waits forever")
        if case["hardware"] == "nv" and (number >= 2 or (before and before["number"] >= 2)) and (api.startswith("recv_rsp") or is_ctx or kw.get("sequential")):
            return {"rejected": f"blocked:{api}:{case['hardware']}"}
        raise Failure(f"blocks:{api}", case, f"{api}: the program waits forever although all {number} responses were offered (requests outstanding: create {dict(ctrl._executor._epr_create_requests)}, recv {dict(ctrl._executor._epr_recv_requests)})")
    except Exception as e:
        raise Failure(f"flush-raises:{api}", case, f"flush after {api} raised {type(e).__name__}: {str(e).splitlines()[0][:200]}")
    if stack.plan:
        raise Failure(f"responses-not-consumed:{api}", case, f"{len(stack.plan)} scripted responses were never waited for")
    # ------------------------------------------------ request as seen by the stack
    info: Dict[str, Any] = {"nondefault": bool(case["kw"])}
    if role == "create":
        n_req = 1 + (1 if before and before["api"].startswith("create") else 0)
        if len(stack.requests) != n_req:
            raise Failure(f"request-count:{api}", case, f"stack received {len(stack.requests)} requests")
        req = stack.requests[-1]
        if before and before["api"].startswith("create") and before.get("kw"):
            r0 = stack.requests[0]
            for fld, want0 in (("max_time", before["kw"].get("max_time", 0)), ("time_unit", TimeUnit[before["kw"].get("time_unit", "MICRO_SECONDS")]), ("number", before["number"])):
                got0 = getattr(r0, fld)
                if (got0.value if hasattr(got0, "value") else got0) != (want0.value if hasattr(want0, "value") else want0) and not (fld == "time_unit" and before["kw"].get("max_time", 0) == 0):
                    raise Failure(f"request-field:{fld}:earlier-request", case, f"{before['api']} issued first: network stack received {fld}={got0!r}, the call asked for {want0!r}")
        rtype = {"create_keep": "K", "create_keep_with_info": "K", "create_measure": "M", "create_rsp": "R", "create_context": "K"}[api]
        # the request type's fields and documented defaults, as published (frozen here: the oracle does not ask the code)
        want = {f_: 0 for f_ in CREATE_FIELDS}
        want.update(type=RequestType.K, number=1, random_basis_local=RandomBasis.NONE, random_basis_remote=RandomBasis.NONE)
        want.update(remote_node_id=remote_id, purpose_id=purpose, type=RequestType[rtype], number=number)
        mt = kw.get("max_time", 0)
        if mt != 0:
            want["max_time"] = mt
            want["time_unit"] = kw.get("time_unit", TimeUnit.MICRO_SECONDS)
        for side in ("local", "remote"):
            rot = None
            if "basis_" + side in kw:
                rot = basis_to_rotation(kw["basis_" + side])
            elif "rotations_" + side in kw:
                rot = kw["rotations_" + side]
            if rot is not None and rtype in ("M", "R"):
                names = ["rotation_X_%s1" % side, "rotation_Y_%s" % side, "rotation_X_%s2" % side]
                for nme, v in zip(names, rot):
                    want[nme] = v
            if "random_basis_" + side in kw and rtype in ("M", "R"):
                want["random_basis_" + side] = kw["random_basis_" + side]

        def val(x):
            return x.value if hasattr(x, "value") else x

        for fld in CREATE_FIELDS:
            got = getattr(req, fld)
            if val(got) != val(want[fld]):
                raise Failure(f"request-field:{fld}", case, f"{api}: network stack received {fld}={got!r}, the call asked for {want[fld]!r}")
        if rtype in ("K", "M"):
            try:
                q1 = request_to_qlink_1_0(req)
            except Exception as e:
                raise Failure(f"request-not-accepted:{type(e).__name__}", case, f"{api}: request_to_qlink_1_0 rejects the request the stack received: {type(e).__name__}: {e} ({req})")
            pairs = [("remote_node_id", "remote_node_id"), ("purpose_id", "purpose_id"), ("number", "number"), ("max_time", "max_time"), ("time_unit", "time_unit")]
            if rtype == "M":
                pairs += [("x_rotation_angle_local_1", "rotation_X_local1"), ("y_rotation_angle_local", "rotation_Y_local"), ("x_rotation_angle_local_2", "rotation_X_local2"),
                          ("x_rotation_angle_remote_1", "rotation_X_remote1"), ("y_rotation_angle_remote", "rotation_Y_remote"), ("x_rotation_angle_remote_2", "rotation_X_remote2"),
                          ("random_basis_local", "random_basis_local"), ("random_basis_remote", "random_basis_remote")]
            for a, b in pairs:
                if val(getattr(q1, a)) != val(want[b]):
                    raise Failure(f"qlink-field:{a}", case, f"{api}: link-layer request has {a}={getattr(q1, a)!r}, the call asked for {want[b]!r}")
    else:
        if len(stack.requests) != (1 if before and before["api"].startswith("create") else 0):
            raise Failure(f"request-count:{api}", case, "receiver side sent a create request")
    # ------------------------------------------------ results
    def native_view(r):
        """a qlink-interface 1.0 response, field by field, in the controller's own response type"""
        if "type" in getattr(r, "_fields", ()):
            return r
        import qlink_interface as ql
        from netqasm.qlink_compat import LinkLayerOKTypeK, LinkLayerOKTypeM, ReturnType

        bs = r.bell_state
        bs = BellState[bs.name] if isinstance(bs, ql.BellState) else BellState(int(bs))
        if isinstance(r, ql.ResCreateAndKeep):
            return LinkLayerOKTypeK(type=ReturnType.OK_K, create_id=r.create_id, logical_qubit_id=r.logical_qubit_id, directionality_flag=r.directionality_flag,
                                    sequence_number=r.sequence_number, purpose_id=r.purpose_id, remote_node_id=r.remote_node_id, goodness=r.goodness,
                                    goodness_time=r.time_of_goodness, bell_state=bs)
        return LinkLayerOKTypeM(type=ReturnType.OK_M, create_id=r.create_id, measurement_outcome=r.measurement_outcome, measurement_basis=r.measurement_basis.value,
                                directionality_flag=r.directionality_flag, sequence_number=r.sequence_number, purpose_id=r.purpose_id, remote_node_id=r.remote_node_id,
                                goodness=r.goodness, bell_state=bs)

    delivered = [native_view(r) for r in stack.delivered[n_before:]]
    if before and not before.get("sequential"):
        for i, r in enumerate(stack.delivered[:n_before]):
            h = before_result[i]
            if before["api"].endswith("keep"):
                ent = h.entanglement_info
                pairs = [("entanglement_info." + fld, getattr(ent, fld), getattr(r, fld)) for fld in r._fields]
            else:
                pairs = [("raw_measurement_outcome", h.raw_measurement_outcome, r.measurement_outcome), ("generation_duration", h.generation_duration, r.goodness),
                         ("raw_bell_state", h.raw_bell_state, r.bell_state), ("remote_node_id", h.remote_node_id, r.remote_node_id)]
            for what, got, want_v in pairs:
                g_ = got.value if hasattr(got, "_connection") else got
                g_ = g_.value if hasattr(g_, "value") and not isinstance(g_, int) else g_
                w_ = want_v.value if hasattr(want_v, "value") and not isinstance(want_v, int) else want_v
                if g_ != w_:
                    raise Failure(f"result:earlier-request:{what}", case, f"{before['api']} issued before {api}: pair {i}: {what} reads {g_!r}, its link-layer response has {w_!r}")

    def fval(x):
        v = x.value if hasattr(x, "value") and not isinstance(x, int.__class__) else x
        return v

    def expect_eq(what, got, want, i):
        try:
            g = got.value if hasattr(got, "_connection") else got
        except Exception as e:
            # a handle whose entry was written by the controller must be readable whatever integer-like object the response carried
            raise Failure(f"result-unreadable:{what}", case, f"{api}: pair {i}: reading {what} raised {type(e).__name__}: {str(e).splitlines()[0][:160]}; link-layer response {i} has {want!r}")
        w = want.value if hasattr(want, "value") and not hasattr(want, "_connection") else want
        if g != w:
            raise Failure(f"result:{what}", case, f"{api}: pair {i}: {what} reads {g!r}, link-layer response {i} has {w!r}")

    if is_ctx:
        # no per-pair handles besides the qubit: every delivered qubit was consumed by the body of its own iteration
        measured = [e for e in getattr(ctrl._executor, "events", [])[ev0:] if e[0] == "meas"]
        n_meas_before = n_before if before and before["api"].endswith("keep") else 0
        if len(measured) != number + n_meas_before or len(delivered) != number:
            raise Failure("result:context-iterations", case, f"{api}: the context body measured {len(measured)} qubits for {number} pairs ({len(delivered)} responses delivered)")
    elif tp == "K":
        if api.endswith("with_info"):
            qubits, infos = result
        else:
            qubits, infos = result, None
        if len(qubits) != number:
            raise Failure("result:qubit-count", case, f"{len(qubits)} qubits for {number} pairs")
        for i, q in enumerate(qubits):
            r = delivered[i]
            ent = q.entanglement_info
            for fld in r._fields:
                expect_eq("entanglement_info." + fld, getattr(ent, fld), getattr(r, fld), i)
            if q.remote_entangled_node != case["remote"]:
                raise Failure("result:remote_entangled_node", case, f"{api}: pair {i}: remote_entangled_node reads {q.remote_entangled_node!r}, the pair is shared with {case['remote']!r} (node {remote_id})")
            if infos is not None:
                ki = infos[i]
                expect_eq("EprKeepResult.qubit_id", ki.qubit_id, r.logical_qubit_id, i)
                expect_eq("EprKeepResult.remote_node_id", ki.remote_node_id, r.remote_node_id, i)
                expect_eq("EprKeepResult.generation_duration", ki.generation_duration, r.goodness, i)
                expect_eq("EprKeepResult.raw_bell_state", ki.raw_bell_state, r.bell_state, i)
                if ki.bell_state != BellState(fval(r.bell_state) if not hasattr(r.bell_state, "value") else r.bell_state.value):
                    raise Failure("result:EprKeepResult.bell_state", case, f"pair {i}: bell_state {ki.bell_state} vs response {r.bell_state}")
    else:
        if len(result) != number:
            raise Failure("result:count", case, f"{len(result)} results for {number} pairs")
        for i, mres in enumerate(result):
            r = delivered[i]
            expect_eq("EprMeasureResult.raw_measurement_outcome", mres.raw_measurement_outcome, r.measurement_outcome, i)
            expect_eq("EprMeasureResult.remote_node_id", mres.remote_node_id, r.remote_node_id, i)
            expect_eq("EprMeasureResult.generation_duration", mres.generation_duration, r.goodness, i)
            expect_eq("EprMeasureResult.raw_bell_state", mres.raw_bell_state, r.bell_state, i)
            bs = r.bell_state.value if hasattr(r.bell_state, "value") else r.bell_state
            if mres.bell_state != BellState(bs):
                raise Failure("result:EprMeasureResult.bell_state", case, f"pair {i}: bell_state {mres.bell_state} vs response {r.bell_state}")
            if role == "create":
                for side in ("local", "remote"):
                    rot = (0, 0, 0)
                    if "basis_" + side in kw:
                        rot = basis_to_rotation(kw["basis_" + side])
                    elif "rotations_" + side in kw:
                        rot = tuple(kw["rotations_" + side])
                    got = tuple(getattr(mres, "measurement_basis_" + side))
                    if api == "create_rsp" and side == "remote":
                        continue
                    if got != tuple(rot):
                        raise Failure(f"result:measurement_basis_{side}", case, f"pair {i}: result says basis {got}, the call asked for {rot}")
    return info


def c11_prev_labels(case) -> List[str]:
    prev = case.get("previous_app")
    if not prev:
        return []
    same_key = prev["socket_id"] == case["socket_id"] and prev["remote"] == case["remote"]
    out = ["after-application:" + prev["api"]]
    if same_key:
        out.append("after-application:same-node-and-socket-id:" + ("other-remote-socket" if prev["remote_socket_id"] != case["remote_socket_id"] else "same-remote-socket"))
    return out


def shard(ctx: Ctx) -> None:
    stt = ctx.stats
    n = 1000 if ctx.tier == "quick" else 10000

    def body(case):
        info = check(case)
        if info.get("rejected"):
            stt.rejected[info["rejected"]] += 1
            stt.evaluations += 1
            return
        nt = case["number"] >= 2 or bool(case["kw"])
        labels = [case["api"], f"pairs:{case['number']}", case["hardware"]] + [f"kw:{k}" for k in case["kw"]] + (["deprecated-alias"] if case.get("alias") else []) + (["after:" + case["before"]["api"] + (":sequential-with-waiting-pair" if case["before"].get("sequential") else "")] if case.get("before") else []) + (["responses-before-the-receive-instruction"] if case.get("early") else []) + (["wire:" + case["wire"]] if case.get("wire") else []) + (["socket-served-another-connection-before"] if case.get("reused_socket") else []) + (["response-flags-as-bool"] if case.get("flags") == "bool" else []) + (["purpose-id-from-registered-remote-socket"] if case.get("purpose_table") else []) + c11_prev_labels(case)
        stt.case({k: v for k, v in case.items()}, nt, labels, sample={k: case[k] for k in ("role", "api", "number", "kw", "hardware")})

    ctx.search(st_case(), body, n, name="c11")


def replay(case):
    try:
        check(case)
    except Failure as f:
        return f
    return None
