"""C04 — the base Executor implements the NetQASM classical semantics and faults precisely.

Differential: repo Executor (TraceExecutor subclass: tracing only) vs. vlib.refinterp on generated
multi-subroutine programs with unstructured jumps.
"""
from __future__ import annotations

import re
from typing import Any, Dict, List

from hypothesis import strategies as st

from vlib import gen_instr as g
from vlib import refinterp as ri
from vlib.runner import Ctx, Failure

LEVEL = "exploration"
RULE = (
    "Hypothesis-generated sequences of 1..4 subroutines over set/add/sub/addm/subm/6 branches/jmp/array/store/load/undef/"
    "lea/ret_reg/ret_arr/qalloc/qfree, all four register banks, jump targets anywhere in 0..len (self-loops, past-the-end), "
    "unit module 1..4, arrays of length 0..9, step bound 400; executed on the repo Executor and on the reference "
    "interpreter against the same persistent application state; a fifth of the cases run with the 'using hardware' setting (32-bit widths "
    "enforced; cases whose reference values leave 32 bits are discarded there).  Non-trivial = >=1 taken and >=1 not-taken conditional "
    "branch, or a fault, or a modular op with a negative operand; distinct by program hash"
)
ASSUMPTIONS = [
    "sound-first domain: registers are written before they are read by arithmetic/branches/array sizes; indices and qubit "
    "addresses are non-negative; cases outside are discarded (counted), never judged",
    "`array` on an address that already holds an array installs a fresh all-undefined array of the new length (Arrays.init_new_array)",
    "simulation mode (no register width overflow checks)",
    "ret_arr hands the application's own list to the host (in-process shared memory): later stores are host-visible, a re-declared address is not",
]
SHARDS = {"quick": 2, "thorough": 16}
BOUND = 400

CONST = ["C0", "C1", "C2", "C3", "Q0", "Q1", "M0", "R8"]  # set once in the prefix, never written again
VAR = ["R0", "R1", "R2", "R3", "M1", "Q2", "C4", "R15"]  # set in the prefix, may be overwritten
OTHER = ["R4", "M2", "Q3", "C5", "M15", "Q15"]  # never set in the prefix (possibly undefined)
ADDRS = [0, 1, 2, 7, -3, 2**31 - 1]

IDX_CONST = ["C0", "C1", "C2", "C3"]  # values 0..4: usually valid indices
QID_CONST = ["Q0", "Q1"]  # values 0..3: qubit addresses
SIZE_CONST = ["M0", "R8"]  # values 5..9: array sizes / moduli

st_val = st.one_of(st.integers(-5, 12), st.integers(0, 4), g.st_i32)
st_src = st.sampled_from(CONST + VAR)
st_dst = st.sampled_from(VAR + VAR + VAR + OTHER)
st_any = st.sampled_from(CONST + VAR + OTHER)
st_idx = st.one_of(*([st.sampled_from(IDX_CONST)] * 8 + [st.sampled_from(CONST + VAR + OTHER)]))
st_addr = st.one_of(*([st.sampled_from(ADDRS[:4])] * 10 + [st.sampled_from(ADDRS)]))
st_mod = st.one_of(*([st.sampled_from(SIZE_CONST)] * 5 + [st_src]))
st_tgt = st.integers(0, 10**6)  # reduced modulo len+1 when the program is assembled


def _entry():
    return st.builds(lambda a, i: {"addr": a, "idx": i}, st_addr, st_idx)


def st_body_instr():
    arith = [
        st.tuples(st.just("set"), st.tuples(st_dst, st_val)),
        st.tuples(st.sampled_from(["add", "sub"]), st.tuples(st_dst, st_src, st_src)),
        st.tuples(st.sampled_from(["addm", "subm"]), st.tuples(st_dst, st_src, st_src, st_mod)),
    ]
    flow = [
        st.tuples(st.sampled_from(["beq", "bne", "blt", "bge"]), st.tuples(st_src, st_src, st_tgt)),
        st.tuples(st.sampled_from(["bez", "bnz"]), st.tuples(st_src, st_tgt)),
        st.tuples(st.just("jmp"), st.tuples(st_tgt)),
    ]
    mem = [
        st.tuples(st.just("store"), st.tuples(st_src, _entry())),
        st.tuples(st.just("store"), st.tuples(st_src, _entry())),
        st.tuples(st.just("load"), st.tuples(st_dst, _entry())),
        st.tuples(st.just("undef"), st.tuples(_entry())),
        st.tuples(st.just("lea"), st.tuples(st_dst, st_addr.map(lambda a: {"addr": a}))),
        st.tuples(st.just("ret_reg"), st.tuples(st_src)),
        st.tuples(st.just("ret_arr"), st.tuples(st_addr.map(lambda a: {"addr": a}))),
    ]
    rare = [
        st.tuples(st.just("store"), st.tuples(st_any, _entry())),
        st.tuples(st.just("ret_reg"), st.tuples(st_any)),
        st.tuples(st.just("array"), st.tuples(st.sampled_from(CONST), st.sampled_from(ADDRS).map(lambda a: {"addr": a}))),
        st.tuples(st.just("qalloc"), st.tuples(st.sampled_from(QID_CONST + QID_CONST + ["C0", "Q2", "Q3"]))),
        st.tuples(st.just("qfree"), st.tuples(st.sampled_from(QID_CONST + QID_CONST + ["C0", "Q2"]))),
    ]
    return st.one_of(*(arith * 3 + flow * 3 + mem * 2 + rare)).map(lambda t: [t[0], list(t[1])])


BRANCH_POS = {"jmp": 0, "bez": 1, "bnz": 1, "beq": 2, "bne": 2, "blt": 2, "bge": 2}


def _finish(sub: List[Any]) -> List[Any]:
    n = len(sub)
    out = []
    for mn, ops in sub:
        ops = list(ops)
        if mn in BRANCH_POS:
            ops[BRANCH_POS[mn]] = ops[BRANCH_POS[mn]] % (n + 1)
        out.append([mn, ops])
    return out


@st.composite
def st_case(draw, max_len=25):
    unit = draw(st.integers(1, 4))
    cvals = {}
    for r in CONST:
        if r in IDX_CONST:
            cvals[r] = draw(st.integers(0, 4))
        elif r in QID_CONST:
            cvals[r] = draw(st.integers(0, 3))
        else:
            cvals[r] = draw(st.integers(5, 9))
    vars_ = draw(st.lists(st_val, min_size=len(VAR), max_size=len(VAR)))
    prefix = [["set", [r, cvals[r]]] for r in CONST] + [["set", [r, v]] for r, v in zip(VAR, vars_)]
    narr = draw(st.integers(2, 5))
    addrs = draw(st.lists(st.sampled_from(ADDRS), min_size=narr, max_size=narr, unique=True))
    if draw(st.integers(0, 3)) > 0:
        addrs = sorted(set(addrs) | set(ADDRS[:4]), key=ADDRS.index)
    sizes = {}
    for a in addrs:
        sizes[a] = draw(st.sampled_from(SIZE_CONST * 4 + IDX_CONST))
        prefix.append(["array", [sizes[a], {"addr": a}]])
    nsub = draw(st.integers(1, 4))
    # "return, then declare again": a later subroutine starts by re-declaring an array the host already received
    # (same size register = same length, or another one), without returning it again
    again = draw(st.integers(0, 2)) if nsub >= 2 else 0
    again_at = draw(st.integers(1, nsub - 1)) if again else None
    again_addr = draw(st.sampled_from(addrs)) if again else None
    subs = []
    for k in range(nsub):
        body = draw(st.lists(st_body_instr(), min_size=1 if k else 3, max_size=max_len))
        if k == 0 and unit >= 2 and draw(st.integers(0, 2)) == 0:
            # allocation churn at the start (nothing is allocated yet): a fault-free sequence of allocations and frees that leaves
            # holes in the set of physical qubits before the rest of the program allocates again
            churn = []
            held: List[int] = []
            for _ in range(draw(st.integers(4, 9))):
                free_ids = [i for i in range(unit) if i not in held]
                if held and (not free_ids or draw(st.integers(0, 2)) == 0):
                    v = held.pop(draw(st.integers(0, len(held) - 1)))
                    churn += [["set", ["Q14", v]], ["qfree", ["Q14"]]]
                else:
                    v = draw(st.sampled_from(free_ids))
                    held.append(v)
                    churn += [["set", ["Q14", v]], ["qalloc", ["Q14"]]]
            if draw(st.booleans()):
                for v in held:
                    churn += [["set", ["Q14", v]], ["qfree", ["Q14"]]]
            body = churn + body
        if draw(st.integers(0, 7)) == 0:
            # a value beyond 32 bits (the simulated controller does not limit its integers) stored and returned to the host
            big_addr = draw(st.sampled_from(addrs))
            body = body + [["set", ["R0", draw(st.sampled_from([2**31 - 1, -(2**31), 2**30 + 7]))]], [draw(st.sampled_from(["add", "sub"])), ["R1", "R0", draw(st.sampled_from(["R0", "R3"]))]],
                           ["add", ["R1", "R1", "R1"]], ["store", ["R1", {"addr": big_addr, "idx": draw(st.sampled_from(IDX_CONST))}]], ["ret_arr", [{"addr": big_addr}]]]
        if draw(st.integers(0, 9)) == 0:
            # a defined value is stored, then a register that was never written (C9 is in no pool) is stored into the same entry:
            # the second store faults and must leave the entry as it was
            st_addr_, st_idx_ = draw(st.sampled_from(addrs)), draw(st.sampled_from(IDX_CONST))
            body = body + [["store", [draw(st_src), {"addr": st_addr_, "idx": st_idx_}]], ["store", ["C9", {"addr": st_addr_, "idx": st_idx_}]]]
        if again and k == again_at - 1:
            body = body + [["store", [draw(st_src), {"addr": again_addr, "idx": draw(st.sampled_from(IDX_CONST))}]], ["ret_arr", [{"addr": again_addr}]]]
        if again and k == again_at:
            size = sizes[again_addr] if again == 1 else draw(st.sampled_from(SIZE_CONST + IDX_CONST))
            body = [["array", [size, {"addr": again_addr}]]] + body
            if draw(st.booleans()):
                # ... and returned again at its new length (the host's copy must be replaced, not refreshed at the old length)
                body = body + [["ret_arr", [{"addr": again_addr}]]]
        if k == 0:
            # jump targets never land inside the prefix (it only runs once, so registers stay write-before-read
            # and arrays are declared once)
            n = len(body)
            fixed = []
            for mn, ops in body:
                ops = list(ops)
                if mn in BRANCH_POS:
                    ops[BRANCH_POS[mn]] = len(prefix) + ops[BRANCH_POS[mn]] % (n + 1)
                fixed.append([mn, ops])
            subs.append(prefix + fixed)
        else:
            subs.append(_finish(body))
    # the controller may run with the "using hardware" setting, in which 32-bit widths are enforced; programs whose values stay
    # within 32 bits (checked on the reference run) behave the same in both settings
    return {"unit": unit, "subs": subs, "bound": BOUND, "hostlines": draw(st.booleans()), "hardware_mode": draw(st.integers(0, 4)) == 0}


# ------------------------------------------------------------------ execution on both sides


def to_instr(j, hostline=None):
    mn, ops = j
    ins = g.instr_from_json("vanilla", [mn, ops])
    if hostline is not None:
        # instructions built by the SDK can carry the line of the *host* program; it must not leak into fault reports
        from netqasm.util.log import HostLine

        ins.lineno = HostLine("app.py", hostline)
    return ins


def run_real(case):
    from netqasm.lang.subroutine import Subroutine
    from vlib import sim

    from netqasm.runtime import settings as _settings

    sim.reset_globals()
    was_hw = _settings.get_is_using_hardware()
    _settings.set_is_using_hardware(bool(case.get("hardware_mode")))
    try:
        return _run_real(case)
    finally:
        _settings.set_is_using_hardware(was_hw)


def _run_real(case):
    from netqasm.lang.subroutine import Subroutine
    from vlib import sim

    ex = sim.TraceExecutor("node")
    ex.init_new_application(0, case["unit"])
    results = []
    for sub_j in case["subs"]:
        hl = case.get("hostlines")
        sub = Subroutine(instructions=[to_instr(j, None if not hl else 1000 + 3 * k) for k, j in enumerate(sub_j)], app_id=0)
        ex.pc_trace = []
        ex.steps = 0
        ex.step_bound = case["bound"]
        ex.ret_log = []
        err = None
        bound = False
        try:
            for _ in ex.execute_subroutine(sub):
                pass
        except sim.StepBound:
            bound = True
        except Exception as e:  # a fault
            err = e
        regs = sim.read_registers(ex, 0)
        um = ex._qubit_unit_modules[0]
        results.append(
            {
                "trace": list(ex.pc_trace),
                "err": err,
                "bound": bound,
                "regs": dict(sorted(regs.items())),
                "arrays": {k: list(v) for k, v in sorted(ex._app_arrays[0]._arrays.items())},
                "qubits": {i: p for i, p in enumerate(um) if p is not None},
                "used_phys": sorted(ex._used_physical_qubit_addresses),
                "ret_log": list(ex.ret_log),
                "shared_arrays": {a: list(v) for a, v in sorted(ex._shared_memories[0]._arrays._arrays.items())},
                "shared_regs": sim.read_shared_registers(ex._shared_memories[0]),
            }
        )
    return results


def check(case) -> Dict[str, Any]:
    """returns info for labelling; raises Failure / OutOfDomain"""
    state = ri.RefState(unit_size=case["unit"])
    ref_results = []
    info = {"fault_kinds": [], "taken": 0, "not_taken": 0, "bound": False, "negmod": False, "mnemonics": set()}
    for sub_j in case["subs"]:
        m = ri.Machine(state, sub_j)
        state.ret_log = []
        before = None
        # run step by step so that the pre-fault state is known
        fault = None
        steps = 0
        while 0 <= m.pc < len(m.prog) and steps < case["bound"]:
            before = state.snapshot()
            mn, ops = m.prog[m.pc]
            info["mnemonics"].add(mn)
            if mn in ("addm", "subm"):
                a, b = state.regs.get(ops[1]), state.regs.get(ops[2])
                if (a is not None and a < 0) or (b is not None and b < 0):
                    info["negmod"] = True
            if mn == "array" and ops[1]["addr"] in state.arrays:
                info["redeclared"] = True  # `array` installs a fresh, all-undefined array (what the executor documents in code)
                a_ = ops[1]["addr"]
                if a_ in state.shared_arrays and any(v is not None for v in state.shared_arrays[a_]) and state.regs.get(ops[0]) is not None:
                    info["redeclared_after_return"] = "same-length" if state.regs[ops[0]] == len(state.shared_arrays[a_]) else "other-length"
            steps += 1
            info["executed"] = info.get("executed", 0) + 1
            if case.get("hardware_mode") and any(v is not None and not -2**31 <= v < 2**31 for v in list(before["regs"].values()) + [x for a in before["arrays"].values() for x in a]):
                raise ri.OutOfDomain("value-beyond-32-bits-in-hardware-mode")
            try:
                m.step()
            except ri.Fault as f:
                fault = f
                after = state.snapshot()
                assert after == before, "reference interpreter updated state on a fault"
                break
        hit_bound = fault is None and 0 <= m.pc < len(m.prog)
        info["bound"] = info["bound"] or hit_bound
        if fault:
            info["fault_kinds"].append(fault.kind)
        for _pc, taken in m.branch_log:
            if m.prog[_pc][0] != "jmp":
                info["taken" if taken else "not_taken"] += 1
        if case.get("hardware_mode") and any(v is not None and not -2**31 <= v < 2**31 for v in list(state.regs.values()) + [x for a in state.arrays.values() for x in a]):
            raise ri.OutOfDomain("value-beyond-32-bits-in-hardware-mode")
        ref_results.append({"trace": list(m.trace), "fault": fault, "bound": hit_bound, "snap": state.snapshot(), "ret_log": list(state.ret_log),
                            "shared_arrays": {a: list(v) for a, v in sorted(state.shared_arrays.items())}, "shared_regs": dict(sorted(state.shared_regs.items()))})
    real = run_real(case)
    for k, (r, e) in enumerate(zip(ref_results, real)):
        where = f"subroutine {k}"
        if e["trace"] != r["trace"]:
            n = next((i for i, (a, b) in enumerate(zip(e["trace"], r["trace"])) if a != b), min(len(e["trace"]), len(r["trace"])))
            pcx = r["trace"][n - 1] if n > 0 else 0
            mn = case["subs"][k][pcx][0] if pcx < len(case["subs"][k]) else "?"
            raise Failure(f"pc-trace:{mn}", case, f"{where}: program-counter trace diverges at step {n} (after {mn} at {pcx}): executor {e['trace'][max(0,n-2):n+2]} reference {r['trace'][max(0,n-2):n+2]}")
        if (e["err"] is not None) != (r["fault"] is not None):
            if r["fault"] is not None:
                raise Failure(f"fault-missed:{r['fault'].kind}", case, f"{where}: reference faults at {r['fault'].pc} ({r['fault'].kind}) but the executor did not")
            raise Failure("fault-spurious", case, f"{where}: executor raised {type(e['err']).__name__}: {str(e['err'])[:200]} but the reference does not fault")
        if r["fault"] is not None:
            msg = str(e["err"])
            mm = re.match(r"At line (-?\d+)", msg)
            if not mm or int(mm.group(1)) != r["fault"].pc:
                raise Failure("fault-line", case, f"{where}: fault at line {r['fault'].pc} ({r['fault'].kind}) reported as {msg[:80]!r}")
        if e["bound"] != r["bound"]:
            raise Failure("termination", case, f"{where}: step bound hit on one side only (executor {e['bound']}, reference {r['bound']})")
        snap = r["snap"]
        for key in ("regs", "arrays", "qubits", "used_phys"):
            if e[key] != snap[key]:
                diff = _diff(e[key], snap[key])
                last = case["subs"][k][r["trace"][-1]][0] if r["trace"] else "?"
                raise Failure(f"state:{key}", case, f"{where}: {key} differ after execution (last instr {last}): {diff}")
        inj = list(e["qubits"].values())
        if len(set(inj)) != len(inj):
            raise Failure("state:qubit-map-not-injective", case, f"{where}: unit module {e['qubits']}")
        if e["shared_arrays"] != r["shared_arrays"] or dict(sorted(e["shared_regs"].items())) != r["shared_regs"]:
            raise Failure("shared-memory-state", case, f"{where}: host-visible shared memory after the subroutine: executor arrays {e['shared_arrays']} regs {e['shared_regs']}; reference arrays {r['shared_arrays']} regs {r['shared_regs']}")
        if e["ret_log"] != r["ret_log"]:
            raise Failure("shared-memory", case, f"{where}: values returned to the host differ: executor {e['ret_log']} reference {r['ret_log']}")
    return info


def _diff(a, b):
    if isinstance(a, dict) and isinstance(b, dict):
        keys = sorted(set(a) | set(b), key=str)
        return {k: (a.get(k, "<undef>"), b.get(k, "<undef>")) for k in keys if a.get(k, "<undef>") != b.get(k, "<undef>")}
    return (a, b)


def shard(ctx: Ctx) -> None:
    stt = ctx.stats
    n = 1000 if ctx.tier == "quick" else 20000
    max_len = 25 if ctx.tier == "quick" else 60

    def body(case):
        try:
            info = check(case)
        except ri.OutOfDomain as e:
            stt.rejected["out-of-domain:" + str(e).split(" ")[0]] += 1
            stt.evaluations += 1
            return
        nt = (info["taken"] >= 1 and info["not_taken"] >= 1) or bool(info["fault_kinds"]) or info["negmod"]
        labels = ["fault:" + k for k in info["fault_kinds"]] + ["mn:" + m for m in info["mnemonics"]]
        stt.labels["executed-instructions-total"] += info["executed"]
        if info.get("redeclared"):
            labels.append("array-redeclared")
        if info.get("redeclared_after_return"):
            labels.append("array-redeclared-after-ret_arr:" + info["redeclared_after_return"])
        if case.get("hardware_mode"):
            labels.append("using-hardware-setting")
        labels += [f"subs:{len(case['subs'])}"] + (["step-bound"] if info["bound"] else []) + (["negmod"] if info["negmod"] else [])
        small = sum(len(s) for s in case["subs"]) <= 24
        stt.case(case, nt, labels, sample=case if small else None)

    ctx.search(st_case(max_len), body, n, name="c04")


def replay(case):
    try:
        check(case)
    except ri.OutOfDomain:
        return None
    except Failure as f:
        return f
    return None
