"""C18 — thread sockets deliver every message once and in order under any schedule.

Real threads run endpoint scripts under a deterministic, harness-owned scheduler (vlib.sched) that
preempts at statement granularity inside the socket hub.
"""
from __future__ import annotations

import gc
import hashlib
import itertools
import json
from typing import Any, Dict, List, Tuple

from hypothesis import strategies as st

from vlib.runner import Ctx, Failure

LEVEL = "exploration"
RULE = (
    "2..3 endpoints, each a real thread with a script projected from a global message plan (<=4 sends per endpoint; "
    "connect, send, send_silent, send_structured, blocking recv (without, with a generous and with an expiring time limit on the virtual clock; after a timeout the receive is repeated), non-blocking recv, recv_silent, disconnect; "
    "message texts include the empty string and repeated texts; plain and callback delivery; 1..2 socket ids; in a third of the "
    "scenarios one endpoint closes a socket part-way and opens it again, possibly with the other delivery mode; an eighth of the scenarios use "
    "broadcast channels: every endpoint broadcasts 0..2 messages, receives what the others broadcast and may then drop its channel) plus a schedule = list of small ints choosing the next thread at every statement of the hub; Hypothesis draws both; "
    "the receiver modifies every StructuredMessage object it was handed (header and payload) after noting its content, a quarter of the messages repeat an earlier message of the same run (equal text and kind) and a fifth of the scenarios send structured messages only; "
    "callback endpoints are of a class that defines recv_callback itself, inherits it from an intermediate socket class, or gets it from a mixin; "
    "a send between two endpoints that are both open must not be refused with ConnectionError; a twelfth of the scenarios are peer-returns histories (the peer closes its socket, the survivor meanwhile does nothing / reads `connected` / calls wait() / attempts a send, "
    "a new peer socket with the same names and id opens (same or other delivery mode) and traffic goes on in both directions; the steps are ordered by tokens on a second socket id); "
    "a late connect with a time limit between 0 and 5 s must succeed when the peer is already open; both tiers enumerate every single-preemption schedule of five fixed scripts (plus three more: repeated equal structured messages, inherited / mixin callback classes; and every peer-returns history of one size under the sequential schedule) and every excursion (another thread runs 1..10 statements, then the interrupted one goes on) of two of them; thorough also enumerates all schedules with <=3 preemptions for small two-endpoint scripts.  Non-trivial = >=1 "
    "preemption inside a hub method and >=2 messages sent; distinct by (scripts, schedule)"
)
ASSUMPTIONS = [
    "the hub lock, sleep and timer are replaced by the scheduler's cooperative lock and virtual clock",
    "scripts are projections of one global message order, so they cannot deadlock by themselves; a polling loop that can no "
    "longer make progress is ended by the scheduler and judged by the oracle (a missing message is a violation, a step bound is inconclusive)",
    "disconnect = what garbage collection of the socket does (ThreadSocket.__del__)",
]
SHARDS = {"quick": 4, "thorough": 16}


@st.composite
def st_schedule(draw):
    """mostly-zero choice list with a few preemptions at drawn positions (plus, sometimes, a dense random prefix)"""
    if draw(st.integers(0, 3)) == 0:
        return draw(st.lists(st.integers(0, 2), min_size=0, max_size=120))
    pre = draw(st.lists(st.tuples(st.integers(0, 260), st.integers(1, 2)), min_size=0, max_size=6))
    if not pre:
        return []
    sch = [0] * (max(p for p, _ in pre) + 1)
    for p, c in pre:
        sch[p] = c
    return sch


@st.composite
def st_scenario(draw):
    if draw(st.integers(0, 7)) == 0:
        # broadcast channels (one socket per remote): every endpoint broadcasts 0..2 messages, then receives everything the
        # others broadcast, then possibly drops its channel
        n_end = draw(st.sampled_from([2, 3, 3]))
        names = ["a", "b", "c"][:n_end]
        sends = {n: [draw(st.sampled_from([f"{n}{k}", f"{n}{k}", "", "dup"])) for k in range(draw(st.integers(0, 2)))] for n in names}
        if not any(sends.values()):
            sends[names[0]] = ["a0"]
        return {"kind": "broadcast", "names": names, "sends": sends, "close": {n: draw(st.booleans()) for n in names}, "schedule": draw(st_schedule())}
    if draw(st.integers(0, 11)) == 0:
        return draw(st_peer_returns())
    special = draw(st.integers(0, 9)) <= 1
    if special:
        # one side opens and closes before the other arrives / notices
        return {"kind": draw(st.sampled_from(["open-close", "late-open-close"])), "schedule": draw(st_schedule())}
    n_end = draw(st.sampled_from([2, 2, 3]))
    names = ["a", "b", "c"][:n_end]
    pairs = [("a", "b")] + ([draw(st.sampled_from([("a", "c"), ("b", "c")]))] if n_end == 3 else [])
    conns = []
    for (x, y) in pairs:
        for sid in range(draw(st.integers(1, 2))):
            conns.append({"x": x, "y": y, "sid": sid, "mode": {x: draw(st.sampled_from(["plain", "plain", "cb"])), y: draw(st.sampled_from(["plain", "plain", "cb"]))}})
    n_msgs = draw(st.integers(1, 6))
    all_structured = draw(st.integers(0, 4)) == 0
    plan = []
    sends_per: Dict[str, int] = {}
    for k in range(n_msgs):
        c = draw(st.sampled_from(conns))
        src, dst = (c["x"], c["y"]) if draw(st.booleans()) else (c["y"], c["x"])
        if sends_per.get(src, 0) >= 4:
            continue
        sends_per[src] = sends_per.get(src, 0) + 1
        msg = draw(st.sampled_from([f"m{k}", f"m{k}", f"m{k}", "", "dup", f"long{k}-" + "x" * 5000, f"L{k}" + "y" * 70000]))
        structured = draw(st.integers(0, 3)) == 0
        if plan and draw(st.integers(0, 3)) == 0:
            # the same message once more (equal text, equal kind), on whatever channel this one goes
            prev = plan[draw(st.integers(0, len(plan) - 1))]
            msg, structured = prev["msg"], prev["structured"]
        plan.append({"src": src, "dst": dst, "sid": c["sid"], "msg": msg, "structured": structured or all_structured,
                     "recv": draw(st.sampled_from(["block", "block", "nb-then-block"])), "via": draw(st.sampled_from(["logged", "logged", "silent"])),
                     "timeout": draw(st.sampled_from([None, None, 1e6, 0.05, 0.15, 0.25, 0.35]))})
    extra_nb = draw(st.lists(st.tuples(st.sampled_from(names), st.integers(0, 8)), max_size=2))
    disconnect = {n: draw(st.booleans()) for n in names}
    schedule = draw(st_schedule())
    scn = {"kind": "plan", "names": names, "conns": conns, "plan": plan, "extra_nb": [list(e) for e in extra_nb], "disconnect": disconnect, "schedule": schedule}
    # the class of an endpoint's callback sockets: recv_callback defined by the class itself, inherited from an intermediate
    # socket class, or provided by a mixin
    scn["cbcls"] = {n: draw(st.sampled_from(CB_CLASSES)) for n in names}
    if draw(st.integers(0, 2)) == 0 and plan:
        # one endpoint closes one of its sockets part-way and opens it again (same names and id, possibly another delivery mode)
        c = draw(st.sampled_from(conns))
        scn["reconnect"] = {"who": draw(st.sampled_from([c["x"], c["y"]])), "conn": conns.index(c), "at": draw(st.integers(0, len(plan))), "mode2": draw(st.sampled_from(["plain", "cb"]))}
    return scn


_RUN_NO = itertools.count()
CB_CLASSES = ["own", "inherited", "mixin"]
GAP_ACTIONS = ["none", "connected", "wait", "send", "send_silent", "send_structured"]


@st.composite
def st_peer_returns(draw):
    """history: a and b talk on socket 0, b closes it, a does `gap` meanwhile, a new b socket 0 opens, they talk on"""
    txt = st.sampled_from(["p", "p", "", "dup"])
    return {"kind": "peer-returns", "names": ["a", "b"],
            "mode_a": draw(st.sampled_from(["plain", "plain", "cb"])), "mode_b1": draw(st.sampled_from(["plain", "plain", "cb"])), "mode_b2": draw(st.sampled_from(["plain", "plain", "cb"])),
            "cbcls": {n: draw(st.sampled_from(CB_CLASSES)) for n in ["a", "b"]},
            "pre": [draw(txt) + f"{i}" * draw(st.integers(0, 1)) for i in range(draw(st.integers(0, 2)))],
            "gap": draw(st.sampled_from(GAP_ACTIONS)),
            "post": [[draw(st.sampled_from(["send", "send", "send_silent", "send_structured"])), draw(txt) + f"{i}" * draw(st.integers(0, 1))] for i in range(draw(st.integers(1, 2)))],
            "back": [draw(txt) + f"{i}" * draw(st.integers(0, 1)) for i in range(draw(st.integers(0, 1)))],
            "schedule": draw(st_schedule())}


def peer_returns_scripts(scn) -> Dict[str, List[Any]]:
    """socket 0 carries the traffic, socket 1 (plain, never closed) carries the tokens that order the steps of the history, so
    the history is the same under every schedule"""
    ma, mb1, mb2 = scn["mode_a"], scn["mode_b1"], scn["mode_b2"]
    rcv = lambda o, sid: ["recv", o, sid, False, False, None]  # noqa: E731
    a = [["connect", "b", 0, ma], ["connect", "b", 1, "plain"]] + [["send", "b", 0, t] for t in scn["pre"]] + [["send", "b", 1, "sent-all"], rcv("b", 1)]
    if scn["gap"] == "connected":
        a.append(["probe_connected", "b", 0])
    elif scn["gap"] == "wait":
        a.append(["wait_lost", "b", 0])
    elif scn["gap"] != "none":
        a.append([scn["gap"], "b", 0, "in-the-gap"])
    a += [["send", "b", 1, "looked"], rcv("b", 1)] + [[how, "b", 0, t] for how, t in scn["post"]]
    if ma == "plain":
        a += [rcv("b", 0) for _ in scn["back"]]
    b = [["connect", "a", 0, mb1], ["connect", "a", 1, "plain"], rcv("a", 1)]
    if mb1 == "plain":
        b += [rcv("a", 0) for _ in scn["pre"]]
    b += [["disconnect", "a", 0], ["send", "a", 1, "gone"], rcv("a", 1), ["connect", "a", 0, mb2], ["send", "a", 1, "back"]]
    if mb2 == "plain":
        b += [rcv("a", 0) for _ in scn["post"]]
    b += [["send", "a", 0, t] for t in scn["back"]]
    return {"a": a, "b": b}


def build_scripts(scn) -> Dict[str, List[Any]]:
    scripts: Dict[str, List[Any]] = {n: [] for n in scn["names"]}
    modes: Dict[Tuple[str, str, int], str] = {}
    for c in scn["conns"]:
        for me, other in ((c["x"], c["y"]), (c["y"], c["x"])):
            scripts[me].append(["connect", other, c["sid"], c["mode"][me]])
            modes[(me, other, c["sid"])] = c["mode"][me]
    chan_all_structured: Dict[Tuple[str, str, int], bool] = {}
    for m in scn["plan"]:
        k = (m["src"], m["dst"], m["sid"])
        chan_all_structured[k] = chan_all_structured.get(k, True) and m["structured"]
    nb_names = {name for name, _pos in scn["extra_nb"]}
    rc = scn.get("reconnect")
    if rc:
        c = scn["conns"][rc["conn"]]
        rc_other = c["y"] if rc["who"] == c["x"] else c["x"]
        if c["mode"][rc["who"]] != rc["mode2"] or True:
            # with a reconnect the delivery mode of a channel may change while messages are in flight: plain decoding only
            chan_all_structured = {k: False for k in chan_all_structured}

    def reconnect_now():
        scripts[rc["who"]].append(["disconnect", rc_other, c["sid"]])
        scripts[rc["who"]].append(["connect", rc_other, c["sid"], rc["mode2"]])
        modes[(rc["who"], rc_other, c["sid"])] = rc["mode2"]

    for i, m in enumerate(scn["plan"]):
        if rc and rc["at"] == i:
            reconnect_now()
        # recv_structured is only used where every message on that channel is structured and no stray non-blocking
        # receive can take a message meant for another receive; otherwise plain recv + lenient decoding in the harness
        m = dict(m, structured_recv=chan_all_structured[(m["src"], m["dst"], m["sid"])] and m["dst"] not in nb_names)
        silent = m.get("via") == "silent" and not m["structured"]
        scripts[m["src"]].append(["send_structured" if m["structured"] else ("send_silent" if silent else "send"), m["dst"], m["sid"], m["msg"]])
        if modes[(m["dst"], m["src"], m["sid"])] == "plain":
            rsilent = m.get("via") == "silent" and not m["structured_recv"]
            if m["recv"] == "nb-then-block":
                scripts[m["dst"]].append(["recv_nb", m["src"], m["sid"], m["structured_recv"], rsilent])
            scripts[m["dst"]].append(["recv", m["src"], m["sid"], m["structured_recv"], rsilent, m.get("timeout")])
    if rc and rc["at"] >= len(scn["plan"]):
        reconnect_now()
    for name, pos in scn["extra_nb"]:
        plain = [(o, s) for (me, o, s), md in modes.items() if me == name and md == "plain"]
        if plain:
            o, s = plain[pos % len(plain)]
            idx = len([x for x in scripts[name] if x[0] == "connect"]) + pos % (len(scripts[name]) + 1)
            scripts[name].insert(min(idx, len(scripts[name])), ["recv_nb", o, s, False])
    for name in scn["names"]:
        if scn["disconnect"].get(name):
            for (me, o, s), md in modes.items():
                if rc and (me, o, s) == (rc_other, rc["who"], c["sid"]):
                    continue  # the peer of a socket that is opened a second time stays: the second opening must find it
                if me == name and md == "plain":
                    scripts[name].append(["disconnect", o, s])
    return scripts


def _is_merge(whole, a, b) -> bool:
    """`whole` is an interleaving of `a` and `b` that keeps the order inside each"""
    if len(whole) != len(a) + len(b):
        return False
    reach = {(0, 0)}
    for x in whole:
        nxt = set()
        for i, j in reach:
            if i < len(a) and a[i] == x:
                nxt.add((i + 1, j))
            if j < len(b) and b[j] == x:
                nxt.add((i, j + 1))
        reach = nxt
    return (len(a), len(b)) in reach


def _payload(m):
    try:
        return json.loads(m)["payload"]
    except Exception:
        return m


def run(scn) -> Dict[str, Any]:
    from netqasm.sdk.classical_communication.message import StructuredMessage
    from netqasm.sdk.classical_communication.thread_socket import socket_hub as hubmod
    from netqasm.sdk.classical_communication.thread_socket.socket import StorageThreadSocket, ThreadSocket
    from vlib.sched import Scheduler, Stuck

    case = scn
    gc.collect()
    hubmod.reset_socket_hub()
    hub = hubmod._socket_hub
    sch = Scheduler(scn["schedule"], [hubmod.__file__])
    hub._lock = sch.make_lock()
    saved = (hubmod.sleep, hubmod.timer)
    hubmod.sleep = sch.sleep
    hubmod.timer = sch.timer
    log: List[Any] = []
    socks: Dict[Tuple[str, str, int], Any] = {}
    old_socks: List[Any] = []  # closed socket objects stay alive until the end of the run (no finalizer in mid-run)
    ever_plain = set()
    # what the harness knows for sure about each endpoint's socket (its own record, not the hub's): "open" from the moment its
    # constructor has returned until its disconnect is about to start; everything else is "not known to be open"
    ostate: Dict[Tuple[str, str, int], str] = {}
    # header of the structured messages of this run: never used by an earlier run in this process (what one run's receivers do
    # with their message objects must not reach into the next run: every failure is reproducible from its case alone)
    hdr = "h" + hashlib.sha1(json.dumps(scn, sort_keys=True, default=str).encode()).hexdigest()[:8] + f"-{next(_RUN_NO)}"
    cbcls = scn.get("cbcls", {})

    def take(mobj):
        """the receiver notes what it was handed and then uses the object as its own (it overwrites both fields)"""
        h, pl = mobj.header, mobj.payload
        mobj.header = "taken"
        mobj.payload = "<overwritten by the receiver>"
        if h != hdr:
            raise Failure("structured:received-content-differs", case, f"a structured message was sent with header {hdr!r} but received with header {h!r} and payload {str(pl)[:60]!r} "
                          "(the receiver had overwritten the fields of a message object it received earlier)")
        return pl

    class LoggingStorageSocket(StorageThreadSocket):
        def recv_callback(self, msg):
            super().recv_callback(msg)
            log.append((self.app_name, "cb-recv", self.remote_app_name, self.id, _payload(msg)))

    class InheritingSocket(LoggingStorageSocket):
        """a callback socket whose recv_callback comes from an intermediate class"""

        tag = "inherits"

    class _CallbackMixin:
        def recv_callback(self, msg):
            self._storage.append(msg)
            log.append((self.app_name, "cb-recv", self.remote_app_name, self.id, _payload(msg)))

    class MixinSocket(_CallbackMixin, ThreadSocket):
        """a callback socket whose recv_callback comes from a mixin"""

        def __init__(self, app_name, remote_app_name, **kwargs):
            self._storage = []
            super().__init__(app_name, remote_app_name, use_callbacks=True, **kwargs)

    cb_classes = {"own": LoggingStorageSocket, "inherited": InheritingSocket, "mixin": MixinSocket}
    channels: Dict[str, Any] = {}
    if scn["kind"] == "broadcast":
        from netqasm.sdk.classical_communication.thread_socket.broadcast_channel import ThreadBroadcastChannel

        class PollingThreadSocket(ThreadSocket):
            # the broadcast receive loop polls its sockets without sleeping: make an empty non-blocking receive a schedule
            # point (as a sleep in a polling loop is), nothing else changes
            def recv(self, block=True, timeout=None, maxsize=None):
                import threading

                try:
                    m = super().recv(block=block, timeout=timeout, maxsize=maxsize)
                except RuntimeError:
                    if not block:
                        sch.sleep(0.0)
                    raise
                sch.idle_sleeps[threading.current_thread().name] = 0  # progress: the round of polls starts over
                return m

        class Channel(ThreadBroadcastChannel):
            _socket_class = PollingThreadSocket

        # one round of the receive loop polls every socket once, and the poll in flight when the last peer finished may have
        # looked at its queue before that peer's message arrived: stuck = a stale poll plus one whole fresh round, all empty
        sch.idle_limit = len(scn["names"]) + 1

        scripts = {}
        for n in scn["names"]:
            others = [o for o in scn["names"] if o != n]
            expect = sum(len(scn["sends"][o]) for o in others)
            scripts[n] = [["bc_open", others, 0]] + [["bc_send", m, 0] for m in scn["sends"][n]] + [["bc_recv", None, 0]] * expect + ([["bc_close", None, 0]] if scn["close"].get(n) else [])
    elif scn["kind"] == "open-close":
        scripts = {"a": [["connect", "b", 0, "plain"], ["disconnect", "b", 0]], "b": [["connect", "a", 0, "plain"], ["send", "a", 0, "late"]]}
    elif scn["kind"] == "late-connect-timeout":
        # a starts first and waits for its peer; b then connects with a time limit (possibly shorter than one poll interval, or 0):
        # a's socket is already open, so b's connect succeeds whatever the limit (sequential schedule only)
        scripts = {"a": [["connect", "b", 0, "plain"], ["recv", "b", 0, False]], "b": [["connect", "a", 0, "plain", scn["timeout"]], ["send", "a", 0, "hello"]]}
    elif scn["kind"] == "peer-returns":
        scripts = peer_returns_scripts(scn)
    elif scn["kind"] == "late-open-close":
        # a starts first and polls; b arrives, sends and closes (possibly all inside one of a's poll sleeps)
        scripts = {"a": [["connect", "b", 0, "plain"], ["recv", "b", 0, False]], "b": [["connect", "a", 0, "plain"], ["send", "a", 0, "hello"], ["disconnect", "a", 0]]}
    else:
        scripts = build_scripts(scn)

    def make(name, ops):
        def body():
            for op in ops:
                k = op[0]
                key = (name, op[1], op[2])
                try:
                    if k == "bc_open":
                        channels[name] = Channel(name, list(op[1]))
                        log.append((name, "bc-open"))
                        continue
                    if k == "bc_send":
                        channels[name].send(op[1])
                        log.append((name, "bc-sent", op[1]))
                        continue
                    if k == "bc_recv":
                        src, m = channels[name].recv()
                        log.append((name, "bc-recv", src, m))
                        continue
                    if k == "bc_close":
                        for so in channels[name]._sockets.values():
                            old_socks.append(so)
                            so.__del__()
                        log.append((name, "bc-closed"))
                        continue
                    if k == "connect":
                        cls = cb_classes[cbcls.get(name, "own")] if op[3] == "cb" else ThreadSocket
                        ostate[key] = "opening"
                        if key in socks:
                            old_socks.append(socks[key])
                        if op[3] == "plain":
                            ever_plain.add(key)
                        ckw = {"timeout": op[4]} if len(op) > 4 and op[4] is not None else {}
                        try:
                            socks[key] = cls(name, op[1], socket_id=op[2], **ckw)
                        except TimeoutError:
                            log.append((name, "connect-timeout", op[1], op[2]))
                            return
                        ostate[key] = "open"
                        log.append((name, "connected", op[1], op[2]))
                    elif k == "send":
                        socks[key].send(op[3])
                        log.append((name, "sent", op[1], op[2], op[3]))
                    elif k == "send_silent":
                        socks[key].send_silent(op[3])
                        log.append((name, "sent", op[1], op[2], op[3]))
                    elif k == "send_structured":
                        socks[key].send_structured(StructuredMessage(header=hdr, payload=op[3]))
                        log.append((name, "sent", op[1], op[2], op[3]))
                    elif k == "recv":
                        kw = {"timeout": op[5]} if len(op) > 5 and op[5] is not None else {}
                        while True:
                            try:
                                if op[3]:
                                    m = take(socks[key].recv_structured(**kw))
                                elif len(op) > 4 and op[4]:
                                    m = _payload(socks[key].recv_silent(**kw))
                                else:
                                    m = _payload(socks[key].recv(**kw))
                                break
                            except TimeoutError:
                                # the time limit ran out (virtual clock): nothing was received; ask again without a limit
                                log.append((name, "timeout", op[1], op[2]))
                                kw = {}
                        log.append((name, "recv", op[1], op[2], m))
                    elif k == "recv_nb":
                        slept = sch.sleep_count.get(name, 0)
                        try:
                            if op[3]:
                                m = take(socks[key].recv_structured(block=False))
                            elif len(op) > 4 and op[4]:
                                m = _payload(socks[key].recv_silent(block=False))
                            else:
                                m = _payload(socks[key].recv(block=False))
                            log.append((name, "recv", op[1], op[2], m))
                        except RuntimeError:
                            log.append((name, "empty", op[1], op[2]))
                        finally:
                            if sch.sleep_count.get(name, 0) != slept:
                                log.append((name, "nb-blocked", op[1], op[2]))
                    elif k == "disconnect":
                        ostate[key] = "closing"
                        socks[key].__del__()
                        ostate[key] = "closed"
                        log.append((name, "disconnected", op[1], op[2]))
                    elif k == "probe_connected":
                        log.append((name, "connected?", op[1], op[2], bool(socks[key].connected)))
                    elif k == "wait_lost":
                        socks[key].wait()
                        log.append((name, "wait-returned", op[1], op[2]))
                except Stuck:
                    log.append((name, "stuck", k, op[1], op[2]))
                    return
                except ConnectionError as e:
                    if k in ("recv", "recv_nb", "bc_recv"):
                        # only sending needs a connected peer; a receive reports emptiness (non-blocking) or waits
                        raise Failure(f"receive-raises:ConnectionError:{k}", case, f"endpoint {name}: {k} raised ConnectionError: {str(e)[:120]}")
                    if k in ("send", "send_silent", "send_structured") and ostate.get(key) == "open" and ostate.get((op[1], name, op[2])) == "open":
                        # both endpoints are open (each constructor has returned, neither disconnect has begun): they are connected
                        hist = [(x[0], x[1]) for x in log if x[0] in (name, op[1]) and x[1] in ("connected", "disconnected", "conn_error", "connected?", "wait-returned")]
                        raise Failure(f"send-refused:ConnectionError:both-endpoints-open:{scn['kind']}", case, f"endpoint {name}: {k} to {op[1]} on socket {op[2]} raised ConnectionError ({str(e)[:80]}) although both "
                                      f"sockets are open; connects / disconnects / refused sends / looks at `connected` of the two endpoints so far: {hist}")
                    log.append((name, "conn_error", k, op[1], op[2]))
                except json.JSONDecodeError:
                    log.append((name, "recv-garbled", op[1], op[2]))

        return body

    try:
        sch.run({n: make(n, ops) for n, ops in scripts.items()})
    finally:
        hubmod.sleep, hubmod.timer = saved
    info = {"preemptions": sch.preemptions, "steps": sch.steps, "inconclusive": sch.inconclusive}
    try:
        if sch.inconclusive:
            return info
        for name, e in sch.thread_errors.items():
            if isinstance(e, Failure):
                raise e
            raise Failure(f"thread-raises:{type(e).__name__}", case, f"endpoint {name} raised {type(e).__name__}: {(str(e).splitlines() or [''])[0][:200]}")
        if scn["kind"] == "broadcast":
            n_sent = 0
            for src in scn["names"]:
                sent_ok = [x[2] for x in log if x[0] == src and x[1] == "bc-sent"]
                n_sent += len(sent_ok)
                for dst in scn["names"]:
                    if dst == src:
                        continue
                    got_b = [x[3] for x in log if x[0] == dst and x[1] == "bc-recv" and x[2] == src]
                    queued = list(hub._messages.get((dst, src, 0), []))
                    if got_b + queued != sent_ok:
                        what = "lost" if len(got_b) + len(queued) < len(sent_ok) else ("duplicated" if len(got_b) + len(queued) > len(sent_ok) else "reordered")
                        stuck_b = [x for x in log if x[0] == dst and x[1] == "stuck"]
                        raise Failure(f"broadcast:{what}", case, f"{src} broadcast {sent_ok}; {dst} received {got_b} from it, still queued {queued}" + ("; its receive never returns" if stuck_b else ""))
            for x in log:
                if x[1] == "stuck" and x[2] == "bc_recv":
                    raise Failure("broadcast:lost", case, f"endpoint {x[0]} waits forever for a broadcast although everything was sent; log {log}")
                if x[1] == "stuck" and x[2] == "bc_open":
                    raise Failure("connect-never-returns", case, f"endpoint {x[0]} never found its peers; log {log}")
            info["sent"] = n_sent
            return info
        if scn["kind"] == "open-close":
            ev = [x for x in log if x[0] == "b"]
            if not any(x[1] == "connected" for x in ev):
                raise Failure("connect-never-returns", case, f"b never connected although a had opened (and closed) its socket; log {log}")
            return info
        if scn["kind"] == "late-connect-timeout":
            if any(x[1] == "connect-timeout" for x in log) or not any(x[0] == "b" and x[1] == "connected" for x in log):
                raise Failure("connect-times-out", case, f"b's connect (time limit {scn['timeout']}) did not succeed although a's socket was already open; log {log}")
            got = [x[4] for x in log if x[0] == "a" and x[1] == "recv"]
            if got != ["hello"]:
                raise Failure("delivery:lost", case, f"b sent 'hello' but a received {got}; log {log}")
            info["sent"] = 2
            return info
        if scn["kind"] == "late-open-close":
            if not any(x[0] == "a" and x[1] == "connected" for x in log):
                raise Failure("connect-never-returns", case, f"a never found its peer although b opened its socket (and closed it again); log {log}")
            sent_ok = any(x[0] == "b" and x[1] == "sent" for x in log)
            got = [x[4] for x in log if x[0] == "a" and x[1] == "recv"]
            if sent_ok and got != ["hello"]:
                raise Failure("delivery:lost", case, f"b sent 'hello' before closing but a received {got}; log {log}")
            info["sent"] = 2 if sent_ok else 0
            return info
        if scn["kind"] == "peer-returns":
            n_sent = 0
            for (src, dst, sid) in sorted({(x[0], x[2], x[3]) for x in log if x[1] == "sent"}):
                msgs = [x[4] for x in log if x[1] == "sent" and (x[0], x[2], x[3]) == (src, dst, sid)]
                n_sent += len(msgs)
                r_all = [x[4] for x in log if x[1] in ("recv", "cb-recv") and (x[2], x[0], x[3]) == (src, dst, sid)]
                queue_payload = [_payload(m) for m in hub._messages.get((dst, src, sid), [])]
                if r_all + queue_payload != msgs:
                    what = "lost" if len(r_all) + len(queue_payload) < len(msgs) else ("duplicated" if len(r_all) + len(queue_payload) > len(msgs) else "reordered")
                    raise Failure(f"delivery:{what}:peer-returns", case, f"{src}->{dst} socket {sid}: sent {msgs}, received {r_all}, still queued {queue_payload}; gap action {scn['gap']}; log {[x[:4] for x in log]}")
                dmode = {("a", 0): scn["mode_a"], ("b", 0): scn["mode_b2"]}.get((dst, sid), "plain")
                if dmode == "cb" and queue_payload:
                    # every message was sent while a callback socket of dst was open (b's first socket took what was sent to it
                    # before it closed; nothing can be sent in the gap)
                    raise Failure("callback-delivery:peer-returns" + ("" if cbcls.get(dst, "own") == "own" else ":" + cbcls[dst] + "-callback"), case, f"{src}->{dst} socket {sid}: {dst} only used callback sockets (class: {cbcls.get(dst, 'own')}) but {queue_payload} sits in the hub queue (sent {msgs})")
            for x in log:
                if x[1] == "stuck" and x[2] == "connect":
                    raise Failure("connect-never-returns", case, f"endpoint {x[0]} never found its peer {x[3]} (socket {x[4]}) although the peer's socket was open; log {[y[:4] for y in log]}")
                if x[1] == "stuck":
                    raise Failure("delivery:lost:peer-returns", case, f"endpoint {x[0]} blocks forever in {x[2]} on socket {x[4]}; log {[y[:4] for y in log]}")
            info["sent"] = n_sent
            info["gap"] = scn["gap"]
            return info
        # ---------------- oracle per direction and socket id
        sent: Dict[Tuple[str, str, int], List[str]] = {}
        got: Dict[Tuple[str, str, int], List[str]] = {}
        cbgot: Dict[Tuple[str, str, int], List[str]] = {}
        for x in log:
            if x[1] == "sent":
                sent.setdefault((x[0], x[2], x[3]), []).append(x[4])
            elif x[1] == "recv":
                got.setdefault((x[2], x[0], x[3]), []).append(x[4])
            elif x[1] == "cb-recv":
                cbgot.setdefault((x[2], x[0], x[3]), []).append(x[4])
        modes = {}
        for c in scn["conns"]:
            modes[(c["x"], c["y"], c["sid"])] = c["mode"][c["x"]]
            modes[(c["y"], c["x"], c["sid"])] = c["mode"][c["y"]]
        n_sent = 0
        for (src, dst, sid), msgs in sent.items():
            n_sent += len(msgs)
            dmode = modes[(dst, src, sid)]
            queue = list(hub._messages.get((dst, src, sid), []))
            queue_payload = []
            for m in queue:
                try:
                    queue_payload.append(json.loads(m)["payload"])
                except Exception:
                    queue_payload.append(m)
            if scn.get("reconnect"):
                # delivery modes may have changed in mid-run: every message sent is received exactly once, in order, by a
                # blocking/non-blocking receive or by a callback, or is still queued; an endpoint that only ever used
                # callbacks leaves nothing in the queue
                r_all = [x[4] for x in log if x[1] in ("recv", "cb-recv") and (x[2], x[0], x[3]) == (src, dst, sid)]
                rcn = scn["reconnect"]
                cc = scn["conns"][rcn["conn"]]
                plain_to_cb = (dst, sid) == (rcn["who"], cc["sid"]) and src in (cc["x"], cc["y"]) and cc["mode"][rcn["who"]] == "plain" and rcn["mode2"] == "cb"
                # a message queued for the plain socket just before it is replaced by a callback socket stays queued while later
                # ones reach the callback: then the sent sequence is an order-preserving merge of the two
                ok = _is_merge(msgs, r_all, queue_payload) if plain_to_cb else r_all + queue_payload == msgs
                if not ok:
                    what = "lost" if len(r_all) + len(queue_payload) < len(msgs) else ("duplicated" if len(r_all) + len(queue_payload) > len(msgs) else "reordered")
                    raise Failure(f"delivery:{what}:reconnect", case, f"{src}->{dst} socket {sid}: sent {msgs}, received {r_all}, still queued {queue_payload}")
                if (dst, src, sid) not in ever_plain and queue_payload:
                    raise Failure("callback-delivery:reconnect", case, f"{src}->{dst} socket {sid}: {dst} only ever used callbacks but {queue_payload} sits in the hub queue (sent {msgs})")
                continue
            if dmode == "cb":
                s = socks.get((dst, src, sid))
                storage = list(s._storage) if s is not None else []
                stor = []
                for m in storage:
                    try:
                        stor.append(json.loads(m)["payload"])
                    except Exception:
                        stor.append(m)
                if stor != msgs:
                    kind_cb = cbcls.get(dst, "own")
                    raise Failure("callback-delivery" + ("" if kind_cb == "own" else f":{kind_cb}-callback"), case, f"{src}->{dst} socket {sid}: sent {msgs}, callback endpoint (recv_callback: {kind_cb}) stored {stor}, stranded in the hub queue {queue_payload}")
            else:
                r = got.get((src, dst, sid), [])
                if r + queue_payload != msgs:
                    what = "lost" if len(r) + len(queue_payload) < len(msgs) else ("duplicated" if len(r) + len(queue_payload) > len(msgs) else "reordered")
                    raise Failure(f"delivery:{what}", case, f"{src}->{dst} socket {sid}: sent {msgs}, received {r}, still queued {queue_payload}")
        for (src, dst, sid), r in got.items():
            if (src, dst, sid) not in sent and r:
                raise Failure("delivery:stale", case, f"{dst} received {r} from {src} on socket {sid} but nothing was sent")
        for x in log:
            if x[1] == "nb-blocked":
                raise Failure("nonblocking-recv-blocks", case, f"endpoint {x[0]}: a non-blocking receive on socket {x[3]} went to sleep instead of reporting an empty channel")
        stuck = [x for x in log if x[1] == "stuck"]
        for x in stuck:
            if x[2] == "connect":
                raise Failure("connect-never-returns", case, f"endpoint {x[0]} never found its peer {x[3]} (socket {x[4]}) although the peer connected")
            if x[2] == "recv_nb":
                raise Failure("nonblocking-recv-blocks", case, f"endpoint {x[0]}: a non-blocking receive never returned")
            if x[2] == "recv":
                # a blocking receive that starved: fine only if its message was never sent (sender hit a connection error)
                key = (x[3], x[0], x[4])
                if len(got.get(key, [])) + len(cbgot.get(key, []) if scn.get("reconnect") else []) < len(sent.get(key, [])) and (modes[(x[0], x[3], x[4])] == "plain" or scn.get("reconnect")):
                    raise Failure("delivery:lost", case, f"endpoint {x[0]} blocks forever although {sent.get(key)} was sent to it (received {got.get(key, [])})")
        info["sent"] = n_sent
        info["timeouts"] = sum(1 for x in log if x[1] == "timeout")
        return info
    finally:
        for ch_ in channels.values():
            old_socks.extend(ch_._sockets.values())
        channels.clear()
        for s in list(socks.values()) + old_socks:
            try:
                hub.disconnect(s)
            except Exception:
                pass
        socks.clear()
        old_socks.clear()
        hubmod.reset_socket_hub()


def shard(ctx: Ctx) -> None:
    stt = ctx.stats
    n = 300 if ctx.tier == "quick" else 5000

    def body(scn):
        info = run(scn)
        if info.get("inconclusive"):
            stt.rejected["inconclusive:" + info["inconclusive"].split(":")[0]] += 1
            stt.evaluations += 1
            return
        nt = info["preemptions"] >= 1 and info.get("sent", 0) >= 2
        labels = [scn["kind"], f"preempt>={min(info['preemptions'] // 5 * 5, 20)}"]
        if scn["kind"] == "peer-returns":
            labels += ["gap:" + scn["gap"], f"peer-returns:{scn['mode_a']}/{scn['mode_b1']}->{scn['mode_b2']}"]
            labels += sorted({"cb-class:" + scn["cbcls"][n] for n, md in (("a", scn["mode_a"]), ("b", scn["mode_b1"]), ("b", scn["mode_b2"])) if md == "cb"})
        if scn["kind"] == "plan":
            labels += sorted({"cb-class:" + scn.get("cbcls", {}).get(n, "own") for c in scn["conns"] for n, md in c["mode"].items() if md == "cb"})
            if not scn.get("reconnect"):
                nb = {name for name, _pos in scn["extra_nb"]}
                chan_struct: Dict[Any, bool] = {}
                for m in scn["plan"]:
                    kk = (m["src"], m["dst"], m["sid"])
                    chan_struct[kk] = chan_struct.get(kk, True) and m["structured"]
                modes_ = {(n, o, c["sid"]): c["mode"][n] for c in scn["conns"] for n, o in ((c["x"], c["y"]), (c["y"], c["x"]))}
                objs = [m["msg"] for m in scn["plan"] if chan_struct[(m["src"], m["dst"], m["sid"])] and m["dst"] not in nb and modes_[(m["dst"], m["src"], m["sid"])] == "plain"]
                if len(objs) > len(set(objs)):
                    labels.append("equal-structured-messages-received-as-objects")
                if objs:
                    labels.append("received-structured-object-overwritten")
            labels += [f"endpoints:{len(scn['names'])}"] + sorted({"mode:" + m for c in scn["conns"] for m in c["mode"].values()})
            if any(m["structured"] for m in scn["plan"]):
                labels.append("structured")
            if scn.get("reconnect"):
                labels.append("reconnect")
            if any(m["msg"] == "" for m in scn["plan"]):
                labels.append("empty-string-message")
            if any(m.get("via") == "silent" for m in scn["plan"]):
                labels.append("silent-entry-points")
            if info.get("timeouts"):
                labels.append("receive-timed-out")
        stt.case(scn, nt, labels, sample=scn if len(str(scn)) < 900 else None)

    ctx.search(st_scenario(), body, n, name="c18")

    # systematic part (both tiers): for a few fixed scripts, every schedule with exactly one preemption (thread choice 1
    # or 2 at one position, sequential otherwise), over the whole length of the run
    def plan(src, dst, k, structured=False, recv="block"):
        return {"src": src, "dst": dst, "sid": 0, "msg": f"m{k}", "structured": structured, "recv": recv}

    fixed = [
        {"kind": "plan", "names": ["a", "b"], "extra_nb": [], "disconnect": {"a": False, "b": False},
         "conns": [{"x": "a", "y": "b", "sid": 0, "mode": {"a": "plain", "b": "plain"}}], "plan": [plan("a", "b", 0), plan("a", "b", 1), plan("a", "b", 2)]},
        {"kind": "plan", "names": ["a", "b"], "extra_nb": [], "disconnect": {"a": False, "b": False},
         "conns": [{"x": "a", "y": "b", "sid": 0, "mode": {"a": "plain", "b": "cb"}}], "plan": [plan("a", "b", 0), plan("a", "b", 1)]},
        {"kind": "plan", "names": ["a", "b"], "extra_nb": [], "disconnect": {"a": True, "b": True},
         "conns": [{"x": "a", "y": "b", "sid": 0, "mode": {"a": "plain", "b": "plain"}}], "plan": [plan("a", "b", 0), plan("b", "a", 1, recv="nb-then-block"), plan("a", "b", 2, structured=True)]},
        {"kind": "late-open-close"},
        {"kind": "open-close"},
    ]
    k = 0
    n_sys = 0
    for scn0 in fixed:
        try:
            base = run(dict(scn0, schedule=[]))
        except Failure as f:
            ctx.fail(f)
            continue
        nsteps = base["steps"] if not base.get("inconclusive") else 0
        for pos in range(nsteps + 1):
            for choice in (1, 2):
                k += 1
                if k % ctx.nshards != ctx.shard:
                    continue
                scn = dict(scn0, schedule=[0] * pos + [choice])
                n_sys += 1
                try:
                    info = run(scn)
                    if not info.get("inconclusive"):
                        stt.case(scn, info["preemptions"] >= 1 and info.get("sent", 0) >= 2, ["single-preemption"])
                    else:
                        stt.rejected["inconclusive:" + info["inconclusive"].split(":")[0]] += 1
                except Failure as f:
                    ctx.fail(f)
    for tmo in (0.0, 0.01, 0.05, 0.25, 0.35, 5.0):
        scn_t = {"kind": "late-connect-timeout", "timeout": tmo, "schedule": []}
        if ctx.shard == 0:
            try:
                info_t = run(scn_t)
                if not info_t.get("inconclusive"):
                    stt.case(scn_t, True, ["connect-with-time-limit"])
            except Failure as f:
                ctx.fail(f)
    stt.exhaustive_domains["five fixed scripts x every single-preemption schedule"] = n_sys
    # three more fixed scripts, same treatment: the same structured message three times (the receiver overwrites each object it
    # gets), callback endpoints whose recv_callback is inherited / comes from a mixin
    def smsg(k):
        return {"src": "a", "dst": "b", "sid": 0, "msg": "dup", "structured": True, "recv": "block" if k else "nb-then-block"}

    def pr(gap, mb2, post):
        return {"kind": "peer-returns", "names": ["a", "b"], "mode_a": "plain", "mode_b1": "plain", "mode_b2": mb2, "cbcls": {"a": "own", "b": "inherited"},
                "pre": ["p0"], "gap": gap, "post": post, "back": ["r0"]}

    fixed_more = [
        {"kind": "plan", "names": ["a", "b"], "extra_nb": [], "disconnect": {"a": False, "b": False}, "cbcls": {"a": "own", "b": "own"},
         "conns": [{"x": "a", "y": "b", "sid": 0, "mode": {"a": "plain", "b": "plain"}}], "plan": [smsg(0), smsg(1), smsg(2)]},
        {"kind": "plan", "names": ["a", "b"], "extra_nb": [], "disconnect": {"a": False, "b": False}, "cbcls": {"a": "own", "b": "inherited"},
         "conns": [{"x": "a", "y": "b", "sid": 0, "mode": {"a": "plain", "b": "cb"}}], "plan": [plan("a", "b", 0), plan("a", "b", 1)]},
        {"kind": "plan", "names": ["a", "b"], "extra_nb": [], "disconnect": {"a": True, "b": False}, "cbcls": {"a": "mixin", "b": "mixin"},
         "conns": [{"x": "a", "y": "b", "sid": 0, "mode": {"a": "cb", "b": "cb"}}], "plan": [plan("a", "b", 0), plan("b", "a", 1), plan("a", "b", 2)]},
    ]
    n_sys2 = 0
    for scn0 in fixed_more:
        try:
            base = run(dict(scn0, schedule=[]))
        except Failure as f:
            ctx.fail(f)
            continue
        nsteps = base["steps"] if not base.get("inconclusive") else 0
        for pos in range(nsteps + 1):
            for choice in (1, 2):
                k += 1
                if k % ctx.nshards != ctx.shard:
                    continue
                scn = dict(scn0, schedule=[0] * pos + [choice])
                n_sys2 += 1
                try:
                    info = run(scn)
                    if not info.get("inconclusive"):
                        stt.case(scn, info["preemptions"] >= 1 and info.get("sent", 0) >= 2, ["single-preemption", "single-preemption:" + scn0["kind"] + (":gap-" + scn0["gap"] if "gap" in scn0 else "")])
                    else:
                        stt.rejected["inconclusive:" + info["inconclusive"].split(":")[0]] += 1
                except Failure as f:
                    ctx.fail(f)
    stt.exhaustive_domains["three more fixed scripts (equal structured messages, inherited and mixin callbacks) x every single-preemption schedule"] = n_sys2
    # every peer-returns history with one message before, two after and one back, sequential schedule: gap action x delivery modes
    # x callback class of the returning peer
    n_pr = 0
    for gap in GAP_ACTIONS:
        for ma, mb1, mb2 in itertools.product(["plain", "cb"], repeat=3):
            for cbk in CB_CLASSES:
                k += 1
                if k % ctx.nshards != ctx.shard:
                    continue
                scn = dict(pr(gap, mb2, [["send", "q0"], ["send_structured", "q0"]]), mode_a=ma, mode_b1=mb1, cbcls={"a": cbk, "b": cbk}, schedule=[])
                n_pr += 1
                try:
                    info = run(scn)
                    if not info.get("inconclusive"):
                        stt.case(scn, info.get("sent", 0) >= 2, ["peer-returns-sequential", "gap:" + gap])
                    else:
                        stt.rejected["inconclusive:" + info["inconclusive"].split(":")[0]] += 1
                except Failure as f:
                    ctx.fail(f)
    stt.exhaustive_domains["peer-returns histories: gap action x delivery modes x callback class, sequential schedule"] = n_pr
    # ... and every short excursion (both tiers): at one position another thread runs for 1..10 statements, then the
    # interrupted thread goes on -- what it takes to land one operation between two lock sections of another
    n_exc = 0
    for scn0 in fixed[:2]:
        try:
            base = run(dict(scn0, schedule=[]))
        except Failure:
            continue  # reported above
        nsteps = base["steps"] if not base.get("inconclusive") else 0
        for pos in range(nsteps + 1):
            for q in range(1, 11):
                k += 1
                if k % ctx.nshards != ctx.shard:
                    continue
                scn = dict(scn0, schedule=[0] * pos + [1] + [0] * (q - 1) + [1])
                n_exc += 1
                try:
                    info = run(scn)
                    if not info.get("inconclusive"):
                        stt.case(scn, info["preemptions"] >= 2 and info.get("sent", 0) >= 2, ["excursion"])
                    else:
                        stt.rejected["inconclusive:" + info["inconclusive"].split(":")[0]] += 1
                except Failure as f:
                    ctx.fail(f)
    stt.exhaustive_domains["two fixed scripts x every excursion of 1..10 statements"] = n_exc
    if ctx.thorough():
        base = {
            "kind": "plan", "names": ["a", "b"], "extra_nb": [], "disconnect": {"a": False, "b": False},
            "conns": [{"x": "a", "y": "b", "sid": 0, "mode": {"a": "plain", "b": "cb"}}],
            "plan": [{"src": "a", "dst": "b", "sid": 0, "msg": "m0", "structured": False, "recv": "block"}, {"src": "a", "dst": "b", "sid": 0, "msg": "m1", "structured": False, "recv": "block"}],
        }
        variants = [base, dict(base, conns=[{"x": "a", "y": "b", "sid": 0, "mode": {"a": "plain", "b": "plain"}}])]
        L = 70
        k = 0
        n_enum = 0
        for v in variants:
            for npre in range(0, 4):
                for pos in itertools.combinations(range(L), npre):
                    k += 1
                    if k % ctx.nshards != ctx.shard:
                        continue
                    sch = [0] * L
                    for p in pos:
                        sch[p] = 1
                    scn = dict(v, schedule=sch)
                    n_enum += 1
                    try:
                        info = run(scn)
                        if not info.get("inconclusive"):
                            stt.case(scn, info["preemptions"] >= 1, ["enum"])
                    except Failure as f:
                        ctx.fail(f)
        stt.exhaustive_domains["two-endpoint scripts x all schedules with <=3 preemptions in the first 70 steps"] = n_enum


def replay(case):
    try:
        run(case)
    except Failure as f:
        return f
    return None
