"""C03 — assembling text or IR into a subroutine preserves program meaning.

Programs are generated as ASTs (not text), rendered to NetQASM text (macros, bracket arguments,
comments) and lowered to a ProtoSubroutine; the repo assembles them; the result is compared with a
direct interpretation of the source (vlib.refinterp in source mode) statically and dynamically.
"""
from __future__ import annotations

import copy
from typing import Any, Dict, List, Optional, Tuple

from hypothesis import strategies as st

from vlib import gen_instr as g
from vlib import refinterp as ri
from vlib.runner import Ctx, Failure, HarnessError

LEVEL = "exploration"
RULE = (
    "Hypothesis-generated source ASTs over set/add/sub/addm/subm/branches/jmp/array/store/load/undef/lea/ret_reg/"
    "ret_arr/qalloc/qfree/wait_*: straight-line blocks, counted loops, forward conditionals/jumps, consecutive labels, "
    "trailing label, unused labels; literals in every read position incl. array index and slice bounds; optional initial "
    "register valuation; rendered to text with DEFINE macros (prefix-overlapping names), bracket arguments, comments and "
    "also lowered to ICmd/BranchLabel IR; assembled with the default flavour argument or an explicit vanilla / NV / REIDS flavour object.  Non-trivial = has a label, a materialised literal and a taken branch; "
    "distinct by AST hash"
)
ASSUMPTIONS = [
    "the reference interpreter judges behaviour of source and of assembled program alike (the repo executor is C04's subject)",
    "'no registers left' is a clean rejection",
]
SHARDS = {"quick": 2, "thorough": 16}
BOUND = 600

# read positions (operand index, sub-key) that may hold a literal in source programs
READ_POS = {
    "add": [1, 2],
    "sub": [1, 2],
    "addm": [1, 2, 3],
    "subm": [1, 2, 3],
    "beq": [0, 1],
    "bne": [0, 1],
    "blt": [0, 1],
    "bge": [0, 1],
    "bez": [0],
    "bnz": [0],
    "array": [0],
    "store": [0],
    "qalloc": [0],
    "qfree": [0],
}
TARGET_POS = {"jmp": 0, "bez": 1, "bnz": 1, "beq": 2, "bne": 2, "blt": 2, "bge": 2}


def literal_slots(ins) -> List[Tuple[int, Optional[str]]]:
    """(operand index, sub key) of every literal that must be materialised, in the assembler's order."""
    mn, ops = ins
    out = []
    for j, o in enumerate(ops):
        if isinstance(o, bool):
            continue
        if isinstance(o, int) and j in READ_POS.get(mn, []):
            out.append((j, None))
        elif isinstance(o, dict) and "idx" in o and isinstance(o["idx"], int):
            out.append((j, "idx"))
        elif isinstance(o, dict) and "start" in o:
            if isinstance(o["start"], int):
                out.append((j, "start"))
            if isinstance(o["stop"], int):
                out.append((j, "stop"))
    return out


def named_registers(prog) -> set:
    regs = set()
    for ins in prog:
        if ins[0] == "label":
            continue
        for o in ins[1]:
            if isinstance(o, str):
                regs.add(o)
            elif isinstance(o, dict):
                for k in ("idx", "start", "stop"):
                    if isinstance(o.get(k), str):
                        regs.add(o[k])
    return regs


# ------------------------------------------------------------------ generation

VARS = ["R0", "R1", "R2", "R3", "M0", "Q0", "C0"]
MORE_R = [f"R{i}" for i in range(4, 16)]
ADDRS = [0, 1, 2, 5]
LABEL_NAMES = ["L", "LOOP", "EXIT", "skip", "end_1", "A", "B2", "Lx", "again", "out", "Q0_done", "M0_loop", "R2D", "C3po", "Rx", "Mloop", "M0_", "R1_", "Q2_1", "C15_", "M0_0_", "r", "m", "q", "c", "q1"]


# further assemblies of the SAME ProtoSubroutine object (one program assembled once per target flavour / assembled again on a
# retry): the flavour argument of every further assembly; [] = the program object is assembled only once
st_again = st.one_of(
    st.just([]),
    st.just([]),
    st.lists(st.sampled_from([None, "vanilla", "nv", "reids"]), min_size=1, max_size=2),
)


@st.composite
def st_program(draw, max_blocks=6):
    if draw(st.integers(0, 11)) == 0:
        # a short program that names many registers: k three-register instructions over 3k different R registers (values from an
        # earlier subroutine), then instructions with literals - fewer commands than named registers
        k = draw(st.sampled_from([4, 4, 5]))
        regs = [f"R{i}" for i in range(3 * k)]
        prog0 = [[draw(st.sampled_from(["add", "sub"])), [regs[3 * i], regs[3 * i + 1], regs[3 * i + 2]]] for i in range(k)]
        for _ in range(draw(st.integers(1, 2))):
            prog0.append([draw(st.sampled_from(["add", "sub"])), [draw(st.sampled_from(regs)), draw(st.sampled_from(regs)), draw(st.integers(1, 9))]])
        return {"prog": prog0, "init": {r: draw(st.integers(0, 9)) for r in regs}, "unit": 3, "style": draw(st.lists(st.integers(0, 99), min_size=30, max_size=30)),
                "flavour": draw(st.sampled_from([None, None, "vanilla", "nv", "reids"])), "again": draw(st_again)}
    nregs_extra = draw(st.sampled_from([0, 0, 0, 2, 6, 9, 10, 11, 12]))
    # which of R4..R15 the program names (when few stay free, it matters which ones)
    pool = VARS + (MORE_R[:nregs_extra] if draw(st.booleans()) else sorted(draw(st.permutations(MORE_R))[:nregs_extra], key=lambda r: int(r[1:])))
    use_init = draw(st.integers(0, 3)) == 0
    init_regs: Dict[str, int] = {}
    prog: List[Any] = []
    first_label = None
    if draw(st.integers(0, 3)) == 0:
        # a label on the very first line (instruction index 0), referred to by a never-taken branch further down
        first_label = "START"
        prog.append(["label", first_label])
        if draw(st.integers(0, 2)) == 0:
            prog.append(["label", "START_B"])
    counter = [0]

    used_labels = {"START", "START_B"}

    def fresh_label():
        counter[0] += 1
        base = draw(st.sampled_from(LABEL_NAMES + ["R", "C", "Q", "M", "done", "Done", "DONE", "exit", "EXIT"]))
        # sometimes the bare name (a single bank letter is a legal label; names that differ only in letter case are different labels)
        if base not in used_labels and not base.endswith("_") and (base in ("R", "C", "Q", "M") or draw(st.integers(0, 2)) == 0):
            used_labels.add(base)
            return base
        if base in ("R", "C", "Q", "M"):
            base = "L"  # a bank letter followed by digits would be a register, not a label
        name = f"{base}{counter[0]}"
        while name in used_labels:  # e.g. "q1" + "1" and "q" + "11": labels are unique within a program
            counter[0] += 1
            name = f"{base}{counter[0]}"
        used_labels.add(name)
        return name

    small = st.integers(0, 6)
    val = st.one_of(st.integers(-4, 9), small, g.st_i32)

    def rd(kind="val"):
        """a read operand: register from the pool or a literal"""
        if draw(st.integers(0, 2)) == 0:
            return draw(small if kind == "idx" else val)
        return draw(st.sampled_from(pool))

    idx_regs = ["R2", "C0"]  # kept small & non-negative: only written with small literals
    # prefix: define everything (either by `set` or by the initial valuation of an earlier subroutine)
    for r in pool:
        v = draw(small) if r in idx_regs else draw(val)
        if use_init and draw(st.integers(0, 1)) == 0:
            init_regs[r] = v
        else:
            prog.append(["set", [r, v]])
    if use_init and draw(st.integers(0, 1)) == 0:
        # a register that the program only ever uses as an array index
        init_regs["R9"] = draw(st.integers(0, 3))
        idx_only = "R9"
    else:
        idx_only = None
    stop_only = None
    free_r = [f"R{i}" for i in range(16) if f"R{i}" not in pool and f"R{i}" != "R9"]
    if use_init and free_r and draw(st.integers(0, 1)) == 0:
        # a register that the program only ever names as the upper bound of a slice (the lowest-numbered one it does not use otherwise)
        stop_only = free_r[0]
        init_regs[stop_only] = 3
    arrays = {}
    for a in draw(st.lists(st.sampled_from(ADDRS), min_size=1, max_size=3, unique=True)):
        n = draw(st.integers(3, 8))
        arrays[a] = n
        prog.append(["array", [n if draw(st.integers(0, 1)) else _set_tmp(prog, "R1", n), {"addr": a}]])

    def idx_operand():
        c = draw(st.integers(0, 5))
        if c <= 1:
            return draw(st.integers(0, 3))
        if c == 2 and idx_only:
            return idx_only
        return draw(st.sampled_from(idx_regs)) if c <= 4 else draw(st.integers(0, 9))

    def entry():
        a = draw(st.sampled_from(sorted(arrays)))
        return {"addr": a, "idx": idx_operand()}

    def dst():
        return draw(st.sampled_from([r for r in pool if r not in idx_regs] or ["R0"]))

    def simple_instr():
        k = draw(st.integers(0, 13))
        if k == 0:
            r = draw(st.sampled_from(pool))
            return ["set", [r, draw(small) if r in idx_regs else draw(val)]]
        if k in (1, 2):
            return [draw(st.sampled_from(["add", "sub"])), [dst(), rd(), rd()]]
        if k == 3:
            return [draw(st.sampled_from(["addm", "subm"])), [dst(), rd(), rd(), draw(st.integers(1, 9)) if draw(st.integers(0, 2)) else rd()]]
        if k in (4, 5):
            return ["store", [rd(), entry()]]
        if k in (6, 7):
            return ["load", [dst(), entry()]]
        if k == 8:
            return ["undef", [entry()]]
        if k == 9:
            return ["lea", [dst(), {"addr": draw(st.sampled_from(ADDRS))}]]
        if k == 10:
            return ["ret_reg", [draw(st.sampled_from(pool))]]
        if k == 11:
            return ["ret_arr", [{"addr": draw(st.sampled_from(sorted(arrays)))}]]
        if k == 12:
            return [draw(st.sampled_from(["qalloc", "qfree"])), [draw(st.integers(0, 2)) if draw(st.integers(0, 1)) else "Q0"]]
        a = draw(st.sampled_from(sorted(arrays)))
        if draw(st.integers(0, 1)):
            return ["wait_single", [{"addr": a, "idx": idx_operand()}]]
        lo = draw(st.integers(0, 2))
        if stop_only and draw(st.booleans()):
            return [draw(st.sampled_from(["wait_all", "wait_any"])), [{"addr": a, "start": lo, "stop": stop_only}]]
        return [draw(st.sampled_from(["wait_all", "wait_any"])), [{"addr": a, "start": lo if draw(st.integers(0, 1)) else "C0", "stop": lo + draw(st.integers(1, 2))}]]

    recent: List[Any] = []

    def block(depth):
        out = []
        for _ in range(draw(st.integers(0, 4))):
            if recent and draw(st.integers(0, 4)) == 0:
                # the same instruction again (recurring updates such as `add R0 R0 1`)
                out.append(copy.deepcopy(draw(st.sampled_from(recent))))
            else:
                ins = simple_instr()
                out.append(ins)
                if ins[0] in ("add", "sub", "addm", "subm", "store", "qalloc", "qfree"):
                    recent.append(ins)
        return out

    def cond():
        mn = draw(st.sampled_from(["beq", "bne", "blt", "bge", "bez", "bnz"]))
        return mn, ([rd()] if mn in ("bez", "bnz") else [rd(), rd()])

    loop_counters = ["R3", "M0"]
    nblocks = draw(st.integers(1, max_blocks))
    pending_forward: List[str] = []
    for b in range(nblocks):
        kind = draw(st.integers(0, 6))
        if kind <= 1:
            prog.extend(block(0))
        elif kind == 2 and loop_counters:
            c = loop_counters.pop()
            lab = fresh_label()
            n = draw(st.integers(1, 4))
            prog.append(["set", [c, 0]])
            prog.append(["label", lab])
            if draw(st.integers(0, 3)) == 0:
                prog.append(["label", fresh_label()])  # consecutive labels
            body = [i for i in block(1) if c not in (i[1][:1] if i[0] in ("set", "add", "sub", "addm", "subm", "load", "lea") else [])]
            prog.extend(body)
            prog.append(["add", [c, c, 1]])
            prog.append(["blt", [c, n if draw(st.integers(0, 1)) else _set_tmp(prog, "R1", n), {"label": lab}]])
        elif kind == 3:
            mn, ops = cond()
            lab = fresh_label()
            prog.append([mn, ops + [{"label": lab}]])
            prog.extend(block(1))
            prog.append(["label", lab])
        elif kind == 4:
            lab = fresh_label()
            prog.append(["jmp", [{"label": lab}]])
            pending_forward.append(lab)
            prog.extend(block(1))
        elif kind == 5:
            prog.append(["label", fresh_label()])  # unused label
            prog.extend(block(0))
        else:
            # conditional forward branch to a label placed later at an arbitrary point
            mn, ops = cond()
            lab = fresh_label()
            prog.append([mn, ops + [{"label": lab}]])
            pending_forward.append(lab)
        # place some pending forward labels
        while pending_forward and draw(st.integers(0, 1)):
            prog.append(["label", pending_forward.pop(0)])
    if first_label is not None:
        prog.append(["bne", [draw(st.integers(0, 3)), None, {"label": first_label}]])
        prog[-1][1][1] = prog[-1][1][0]  # bne x x START: never taken, but the target must still be instruction 0
    for lab in pending_forward:
        prog.append(["label", lab])  # possibly trailing labels
    if draw(st.integers(0, 2)) == 0:
        prog.extend(block(0))
    style = draw(st.lists(st.integers(0, 99), min_size=30, max_size=30))
    # the programs use core instructions only, so every flavour assembles them alike; None = the default (what the SDK passes)
    flav = draw(st.sampled_from([None, None, "vanilla", "nv", "reids"]))
    return {"prog": prog, "init": init_regs, "unit": 3, "style": style, "flavour": flav, "again": draw(st_again)}


def _set_tmp(prog, reg, value):
    prog.append(["set", [reg, value]])
    return reg


# ------------------------------------------------------------------ rendering

MACRO_NAMES = ["q", "q_1", "q1", "i", "i_max", "idx", "m", "m_", "m2", "val", "val_2", "v", "x", "x_y", "xx", "op", "reg_a"]


class Style:
    def __init__(self, seq):
        self.seq = list(seq) or [0]
        self.k = 0

    def next(self, n):
        v = self.seq[self.k % len(self.seq)]
        self.k += 1
        return v % n


def _tok(o) -> str:
    if isinstance(o, int):
        return str(o)
    if isinstance(o, str):
        return o
    if isinstance(o, dict):
        if "label" in o:
            return o["label"]
        if "idx" in o:
            return None  # handled by caller
    raise HarnessError(f"bad operand {o}")


def render_text(case) -> Tuple[str, Dict[str, Any]]:
    """NetQASM text of the source program.  Returns (text, info)."""
    sty = Style(case["style"])
    use_macros = sty.next(3) != 0
    macros: Dict[str, str] = {}  # token -> macro name
    defs: List[Tuple[str, str, bool]] = []
    info = {"macros": 0, "brackets": 0, "overlap": False}
    names = list(MACRO_NAMES)
    # rotate so that different overlap orders occur
    rot = sty.next(len(names))
    names = names[rot:] + names[:rot]

    def macro_for(token: str) -> str:
        if not use_macros:
            return token
        if token in macros:
            if sty.next(3) != 0:
                return "$" + macros[token]
            return token
        if len(defs) < 6 and sty.next(3) == 0 and names:
            name = names.pop(0)
            macros[token] = name
            defs.append((name, token, sty.next(2) == 0))
            return "$" + name
        return token

    def operand_text(o) -> str:
        if isinstance(o, dict) and "label" in o:
            return o["label"]
        if isinstance(o, dict) and "idx" in o:
            return f"@{o['addr']}[{macro_for(str(o['idx']))}]"
        if isinstance(o, dict) and "start" in o:
            return f"@{o['addr']}[{macro_for(str(o['start']))}:{macro_for(str(o['stop']))}]"
        if isinstance(o, dict) and "addr" in o:
            return f"@{o['addr']}"
        return macro_for(str(o))

    lines = []
    for ins in case["prog"]:
        if ins[0] == "label":
            lines.append(f"{ins[1]}:" + ("  // a label comment" if sty.next(5) == 0 else ""))
            continue
        mn, ops = ins
        ops = list(ops)
        # leading literals in read positions may be written as bracket arguments
        nlead = 0
        for j, o in enumerate(ops):
            if isinstance(o, int) and not isinstance(o, bool) and j in READ_POS.get(mn, []):
                nlead += 1
            else:
                break
        mn_text = mn
        args_text = ""
        if nlead and sty.next(2) == 0:
            k = 1 + sty.next(nlead)
            sep = ", " if sty.next(4) == 0 else ","
            args_text = "(" + sep.join(str(o) for o in ops[:k]) + ")"
            ops = ops[k:]
            info["brackets"] += 1
        elif use_macros and sty.next(12) == 0 and "op" in names:
            names.remove("op")
            defs.append(("op", mn, False))
            mn_text = "$op"
            use_op = True
        line = mn_text + args_text + "".join(" " + operand_text(o) for o in ops)
        if sty.next(7) == 0:
            line += "  // a comment"
        lines.append(line)
        if sty.next(11) == 0:
            lines.append("")
        if sty.next(13) == 0:
            lines.append("// only a comment")
    info["macros"] = len(defs)
    dn = [d[0] for d in defs]
    info["overlap"] = any(a != b and b.startswith(a) for a in dn for b in dn)
    pre = ["# NETQASM 0.0", "# APPID 0"]
    for name, value, braces in defs:
        pre.append(f"# DEFINE {name} {{{value}}}" if braces else f"# DEFINE {name} {value}")
    return "\n".join(pre + lines) + "\n", info


def lower_ir(case):
    """the same program as a ProtoSubroutine of ICmd / BranchLabel"""
    from netqasm.lang import operand as op
    from netqasm.lang.ir import BranchLabel, ICmd, ProtoSubroutine, string_to_instruction

    def conv(o):
        if isinstance(o, int):
            return o
        if isinstance(o, str):
            return g.reg_from_str(o)
        if "label" in o:
            return op.Label(o["label"])
        if "idx" in o:
            return op.ArrayEntry(op.Address(o["addr"]), conv(o["idx"]))
        if "start" in o:
            return op.ArraySlice(op.Address(o["addr"]), conv(o["start"]), conv(o["stop"]))
        return op.Address(o["addr"])

    cmds = []
    sty = Style(list(reversed(case["style"])))
    share_lists = sty.next(3) == 0  # structurally equal commands may be built from one operand list object
    shared: Dict[str, list] = {}
    for ins in case["prog"]:
        if ins[0] == "label":
            cmds.append(BranchLabel(ins[1]))
        else:
            mn, ops = ins
            nlead = 0
            for j, o in enumerate(ops):
                if isinstance(o, int) and not isinstance(o, bool) and j in READ_POS.get(mn, []):
                    nlead += 1
                else:
                    break
            k = (1 + sty.next(nlead)) if nlead and sty.next(3) == 0 else 0
            # leading literals may be given as ICmd.args (what the text form `instr(a,b) ...` produces)
            operands = [conv(o) for o in ops[k:]]
            if share_lists and k == 0 and not any(isinstance(o, dict) and "label" not in o for o in ops):
                # (only flat operand lists: array entries are mutable operand objects that a caller must not share)
                key = repr(ins)
                operands = shared.setdefault(key, operands)
            cmds.append(ICmd(instruction=string_to_instruction(mn), args=[o for o in ops[:k]], operands=operands))
    if sty.next(3) == 0:
        # built incrementally, as a program generator would
        proto = ProtoSubroutine(netqasm_version=(0, 0), app_id=0)
        for c in cmds:
            proto.commands.append(c)
        return proto
    return ProtoSubroutine(commands=cmds, netqasm_version=(0, 0), app_id=0)


# ------------------------------------------------------------------ oracle


def static_check(case, assembled, route) -> Tuple[List[int], Dict[str, Any]]:
    """Predict the assembled list from the source; returns map assembled index -> source instr index (or -1 for sets)."""
    prog = case["prog"]
    named = named_registers(prog)
    src = [(i, ins) for i, ins in enumerate(prog) if ins[0] != "label"]
    # expected assembled index of the first instruction of every source instruction
    first_idx = []
    pos = 0
    for _i, ins in src:
        first_idx.append(pos)
        pos += len(literal_slots(ins)) + 1
    total = pos
    label_target: Dict[str, int] = {}
    n_seen = 0
    for ins in prog:
        if ins[0] == "label":
            label_target[ins[1]] = first_idx[n_seen] if n_seen < len(src) else total
        else:
            n_seen += 1
    asm = [g.instr_to_json(i) for i in assembled]
    if len(asm) != total:
        raise Failure(f"{route}:static:length", case, f"assembled program has {len(asm)} instructions, expected {total}: {[str(i) for i in assembled]}")
    amap: List[int] = []
    p = 0
    info = {"materialised": 0}
    for k, (_i, ins) in enumerate(src):
        mn, ops = ins
        slots = literal_slots(ins)
        scratch = []
        for (j, sub) in slots:
            lit = ops[j] if sub is None else ops[j][sub]
            a_mn, a_ops = asm[p]
            if a_mn != "set" or a_ops[1] != lit or not isinstance(a_ops[0], str):
                raise Failure(f"{route}:static:materialise", case, f"before source instr {ins}: expected 'set <scratch> {lit}', got {a_mn} {a_ops}")
            if a_ops[0] in named:
                raise Failure(f"{route}:static:scratch-named", case, f"literal {lit} of {ins} is materialised into {a_ops[0]}, a register the source program names")
            if a_ops[0] in scratch:
                raise Failure(f"{route}:static:scratch-reused", case, f"two literals of {ins} share scratch register {a_ops[0]}")
            scratch.append(a_ops[0])
            amap.append(-1)
            info["materialised"] += 1
            p += 1
        a_mn, a_ops = asm[p]
        exp_ops = copy.deepcopy(ops)
        for (j, sub), r in zip(slots, scratch):
            if sub is None:
                exp_ops[j] = r
            else:
                exp_ops[j][sub] = r
        if mn in TARGET_POS:
            t = exp_ops[TARGET_POS[mn]]
            exp_ops[TARGET_POS[mn]] = label_target[t["label"]]
        if a_mn != mn or a_ops != exp_ops:
            what = "branch-target" if (mn in TARGET_POS and a_mn == mn and a_ops[: TARGET_POS[mn]] == exp_ops[: TARGET_POS[mn]]) else "instr"
            raise Failure(f"{route}:static:{what}", case, f"source instr {ins} assembled as {a_mn} {a_ops}, expected {mn} {exp_ops}")
        amap.append(k)
        p += 1
    return amap, info


def run_ref(prog, init, unit, source_mode):
    st_ = ri.RefState(unit_size=unit)
    st_.regs.update(init)
    m = ri.Machine(st_, prog, source_mode=source_mode)
    fault = m.run(BOUND)
    return m, st_, fault


def dynamic_check(case, assembled, amap, route) -> Dict[str, Any]:
    prog = case["prog"]
    named = named_registers(prog)
    m_src, s_src, f_src = run_ref(prog, case["init"], case["unit"], True)
    asm_prog = [g.instr_to_json(i) for i in assembled]
    m_asm = ri.Machine(ri.RefState(unit_size=case["unit"]), asm_prog)
    m_asm.st.regs.update(case["init"])
    # run the assembled program until it has executed as many *source* instructions as the source run
    f_asm = None
    src_trace_from_asm: List[int] = []
    steps = 0
    target_len = len(m_src.trace)
    while 0 <= m_asm.pc < len(m_asm.prog) and steps < BOUND * 4:
        k = amap[m_asm.pc]
        if k >= 0 and len(src_trace_from_asm) >= target_len and f_src is None and not m_src.finished:
            break  # source run stopped at its step bound
        steps += 1
        if k >= 0:
            src_trace_from_asm.append(k)
        try:
            m_asm.step()
        except ri.Fault as f:
            f_asm = f
            break
    if src_trace_from_asm != m_src.trace:
        n = next((i for i, (a, b) in enumerate(zip(src_trace_from_asm, m_src.trace)) if a != b), min(len(src_trace_from_asm), len(m_src.trace)))
        raise Failure(f"{route}:dynamic:trace", case, f"executed source-instruction sequence diverges at step {n}: assembled {src_trace_from_asm[max(0,n-2):n+3]} source {m_src.trace[max(0,n-2):n+3]}")
    if (f_src is None) != (f_asm is None):
        raise Failure(f"{route}:dynamic:fault", case, f"source fault {f_src} vs assembled fault {f_asm}")
    if f_src is not None and amap[f_asm.pc] != f_src.pc:
        raise Failure(f"{route}:dynamic:fault-instr", case, f"source faults at instr {f_src.pc}, assembled at source instr {amap[f_asm.pc]}")
    if m_asm.st.arrays != s_src.arrays:
        raise Failure(f"{route}:dynamic:arrays", case, f"final arrays differ: assembled {m_asm.st.arrays} source {s_src.arrays}")
    if m_asm.st.ret_log != s_src.ret_log:
        raise Failure(f"{route}:dynamic:returns", case, f"returned values differ: assembled {m_asm.st.ret_log} source {s_src.ret_log}")
    if m_asm.st.qubits != s_src.qubits:
        raise Failure(f"{route}:dynamic:qubits", case, f"allocated qubits differ: {m_asm.st.qubits} vs {s_src.qubits}")
    for r in sorted(named):
        if m_asm.st.regs.get(r) != s_src.regs.get(r):
            raise Failure(f"{route}:dynamic:register", case, f"register {r} named by the source ends as {m_asm.st.regs.get(r)} (assembled) vs {s_src.regs.get(r)} (source)")
    taken = sum(1 for pc, t in m_src.branch_log if t)
    return {"taken": taken, "fault": f_src.kind if f_src else None, "bound": f_src is None and not m_src.finished}


def check(case) -> Dict[str, Any]:
    from netqasm.lang.parsing.text import assemble_subroutine, parse_text_subroutine

    # direct interpretation must be in-domain first
    names = [i[1] for i in case["prog"] if i[0] == "label"]
    if len(names) != len(set(names)):
        raise ri.OutOfDomain("duplicate label names")  # not a program: labels are unique
    info: Dict[str, Any] = {}
    text, tinfo = render_text(case)
    info.update(tinfo)
    results = {}
    for route in ("text", "ir"):
        try:
            fkw = {}
            if case.get("flavour"):
                from netqasm.lang.instr import flavour as _fl

                fkw["flavour"] = {"vanilla": _fl.VanillaFlavour, "nv": _fl.NVFlavour, "reids": _fl.REIDSFlavour}[case["flavour"]]()
            if route == "text":
                sub = parse_text_subroutine(text, **fkw)
            else:
                sub = assemble_subroutine(lower_ir(case), **fkw)
        except RuntimeError as e:
            if "no registers left" in str(e):
                info["rejected"] = "no-registers-left"
                named_r = [r for r in named_registers(case["prog"]) if r.startswith("R")]
                # at most one scratch register per literal operand of a single command is needed at a time
                need = max([sum(1 for o in ins[1] if isinstance(o, int) and not isinstance(o, bool)) + sum(1 for o in ins[1] if isinstance(o, dict) for k_ in ("idx", "start", "stop") if isinstance(o.get(k_), int))
                            for ins in case["prog"] if ins[0] != "label"] or [0])
                if len(named_r) + need <= 16:
                    raise Failure(f"{route}:spurious-no-registers", dict(case, text=text), f"assembler ran out of registers although the source names only {len(named_r)} R registers")
                continue
            raise Failure(f"{route}:assemble-raises", dict(case, text=text), f"{route} assembly raised {type(e).__name__}: {e}")
        except Exception as e:
            raise Failure(f"{route}:assemble-raises", dict(case, text=text), f"{route} assembly raised {type(e).__name__}: {e}")
        c = dict(case, text=text)
        amap, sinfo = static_check(c, sub.instructions, route)
        info.update(sinfo)
        d = dynamic_check(c, sub.instructions, amap, route)
        info.update(d)
        results[route] = [g.instr_to_json(i) for i in sub.instructions]
    if len(results) == 2 and results["text"] != results["ir"]:
        raise Failure("text-vs-ir", dict(case, text=text), "text route and IR route assemble to different subroutines")
    if case.get("again") and len(results) == 2:
        info["reassembled"] = reassemble_check(dict(case, text=text), text)
    return info


def _flavour_kw(name) -> Dict[str, Any]:
    if not name:
        return {}
    from netqasm.lang.instr import flavour as _fl

    return {"flavour": {"vanilla": _fl.VanillaFlavour, "nv": _fl.NVFlavour, "reids": _fl.REIDSFlavour}[name]()}


def reassemble_check(c, text) -> int:
    """One program object (ProtoSubroutine from the text parser / hand-built IR) handed to the assembler several times, each
    time possibly for another flavour: EVERY subroutine that comes back is an assembled form of the source program and is judged
    by the same static and dynamic oracle as a first assembly; a subroutine obtained earlier must not change under the hands of
    its holder when the program is assembled again.  (Only programs the assembler accepted: a rejection is no assembly.)"""
    from netqasm.lang.parsing.text import assemble_subroutine, parse_text_protosubroutine

    flavours = [c.get("flavour")] + list(c["again"])
    for route in ("text", "ir"):
        rname = f"{route}-reassembled"
        try:
            proto = parse_text_protosubroutine(text) if route == "text" else lower_ir(c)
        except Exception as e:
            raise Failure(f"{rname}:proto-raises", c, f"building the program object raised {type(e).__name__}: {e}")
        earlier = []  # (subroutine, its listing when it was returned)
        for n, fl in enumerate(flavours):
            try:
                sub = assemble_subroutine(proto, **_flavour_kw(fl))
            except Exception as e:
                raise Failure(f"{rname}:assemble-raises", c, f"assembly number {n + 1} of one {route} program object (flavour {fl}) raised {type(e).__name__}: {e}")
            try:
                amap, _ = static_check(c, sub.instructions, rname)
                dynamic_check(c, sub.instructions, amap, rname)
            except Failure as f:
                f.message = f"assembly number {n + 1} of one {route} program object (flavours so far {flavours[: n + 1]}): {f.message}"
                raise
            earlier.append((sub, [g.instr_to_json(i) for i in sub.instructions]))
            for k, (s0, js0) in enumerate(earlier[:-1]):
                if [g.instr_to_json(i) for i in s0.instructions] != js0:
                    raise Failure(f"{rname}:earlier-result-changed", c, f"the subroutine returned by assembly number {k + 1} changed when the same {route} program object was assembled again (assembly number {n + 1})")
    return len(flavours)


def shard(ctx: Ctx) -> None:
    stt = ctx.stats
    n = 1000 if ctx.tier == "quick" else 10000
    mb = 6 if ctx.tier == "quick" else 12

    def body(case):
        try:
            info = check(case)
        except ri.OutOfDomain as e:
            stt.rejected["out-of-domain:" + " ".join(str(e).split(" ")[:2])] += 1
            stt.evaluations += 1
            return
        prog = case["prog"]
        has_label = any(i[0] == "label" for i in prog)
        nt = has_label and info.get("materialised", 0) > 0 and info.get("taken", 0) > 0
        labels = []
        labs = [k for k, i in enumerate(prog) if i[0] == "label"]
        if any(b == a + 1 for a, b in zip(labs, labs[1:])):
            labels.append("consecutive-labels")
        if prog and prog[-1][0] == "label":
            labels.append("trailing-label")
        if prog and prog[0][0] == "label":
            labels.append("label-at-instruction-0")
        if info.get("macros"):
            labels.append("macros")
        if info.get("overlap"):
            labels.append("macro-prefix-overlap")
        if info.get("brackets"):
            labels.append("bracket-args")
        if case["init"]:
            labels.append("initial-valuation")
        if case.get("flavour"):
            labels.append("explicit-flavour:" + case["flavour"])
        if info.get("reassembled"):
            labels.append(f"same-program-object-assembled-{info['reassembled']}-times")
            if len(set([case.get("flavour")] + list(case["again"]))) > 1:
                labels.append("same-program-object-assembled-for-different-flavours")
            if any(sub for i in prog if i[0] != "label" for (_j, sub) in literal_slots(i)):
                labels.append("reassembled-with-literal-index-or-bound")
        if any(isinstance(o, dict) and isinstance(o.get("idx"), int) for i in prog if i[0] != "label" for o in i[1]):
            labels.append("literal-index")
        if any(isinstance(o, dict) and "start" in o and (isinstance(o["start"], int) or isinstance(o["stop"], int)) for i in prog if i[0] != "label" for o in i[1]):
            labels.append("literal-slice-bound")
        if info.get("rejected"):
            labels.append("rejected:" + info["rejected"])
            stt.rejected[info["rejected"]] += 1
        if info.get("fault"):
            labels.append("fault")
        if info.get("bound"):
            labels.append("step-bound")
        if any(i[0] == "blt" and isinstance(i[1][2], dict) and any(j[0] == "label" and j[1] == i[1][2]["label"] for j in prog[:k]) for k, i in enumerate(prog) if i[0] != "label"):
            labels.append("backward-jump")
        if len([r for r in named_registers(prog) if r[0] == "R"]) >= 16:
            labels.append("all-16-R-registers")
        sample = None
        if nt and len(prog) <= 22:
            sample = {"text": render_text(case)[0], "init": case["init"]}
        stt.case({"prog": prog, "init": case["init"]}, nt, labels, sample=sample)

    ctx.search(st_program(mb), body, n, name="c03")


def replay(case):
    case = {k: v for k, v in case.items() if k != "text"}
    try:
        check(case)
    except ri.OutOfDomain:
        return None
    except Failure as f:
        return f
    return None
