"""C19 — float angles are approximated within tolerance by encodable rotations."""
from __future__ import annotations

import math
import signal
from fractions import Fraction

from hypothesis import strategies as st

from vlib.runner import Ctx, Failure

LEVEL = "exploration"
RULE = (
    "Hypothesis floats over the whole finite range (log-uniform magnitudes to 1e300, all finite doubles) incl. negatives, exact dyadic multiples of pi, values within 1e-12..1e-3 of 0 "
    "and of 2pi (both sides), subnormals, -0.0; tolerance 1e-9..1e-2 (log-uniform + the default 1e-4).  Oracle: exact "
    "rational sum of n_i/2^d_i times pi vs. the angle, circular distance < tol (+1e-13), with pi read as the real number (60 digits) or as the double the code reduces with - either reading is accepted, "
    "every n,d an int in 0..255, bounded number of steps; pipeline: q.rot_X/Y/Z(angle=a) emits exactly these steps.  "
    "Non-trivial = angle not within tol of 0 mod 2pi (>=1 step needed); distinct by (angle, tol).  "
    "Type dimension: the same angles handed over as numpy.float64 and as an instance of a float subclass (both ARE floats), same oracle, direct and through q.rot_*.  "
    "Program dimension: float-angle rotations inside generated SDK programs (default / generic / NV hardware config, 1-3 initial qubits, several subroutines, qubits "
    "created / measured / gated around the rotations, incl. the two NV relocation paths); the emitted subroutines are interpreted by a small address-tracking model "
    "(set/qalloc/qfree/mov) and every logical qubit must receive exactly the steps of the rotations requested on it, in order, on an allocated address, and nothing else"
)
ASSUMPTIONS = [
    "'modulo 2 pi' may be read with the exact real pi or with the double-precision constant 2*pi (Python's float % is exact, so the code's own reduction has no error under that reading); a result within tolerance under either reading is accepted, so an implementation that reduces with extended precision is not reported",
    "tolerance is the docstring's: abs(sum_i n_i pi/2^d_i - angle) < tol, read modulo 2pi",
]
SHARDS = {"quick": 1, "thorough": 16}

PI = Fraction("3.14159265358979323846264338327950288419716939937510582097494")
TWO_PI = 2 * PI
MAX_STEPS = 64


class _Timeout(Exception):
    pass


def _alarm(signum, frame):
    raise _Timeout()


class _SubFloat(float):
    """an instance of a subclass of float is a float"""


TYPES = ("float", "np.float64", "float-subclass")


def typed(angle: float, typ: str):
    """the same finite double, handed over as another float type (numpy.float64 is a subclass of float)"""
    if typ == "float":
        return angle
    if typ == "np.float64":
        import numpy as np

        v = np.float64(angle)
    elif typ == "float-subclass":
        v = _SubFloat(angle)
    else:
        raise ValueError(typ)
    assert isinstance(v, float) and float(v) == angle or angle != angle
    return v


def spec(angle: float, tol, typ: str = "float"):
    from netqasm.sdk.toolbox.state_prep import get_angle_spec_from_float

    if tol is None:
        return get_angle_spec_from_float(typed(angle, typ))
    return get_angle_spec_from_float(typed(angle, typ), tol)


def circ_dist(nds, angle: float) -> Fraction:
    s = sum((Fraction(n, 1) / (Fraction(2) ** d) for n, d in nds), Fraction(0)) * PI
    diff = Fraction(angle) - s
    k = round(diff / TWO_PI)
    return abs(diff - k * TWO_PI)


F_PI = Fraction(math.pi)
F_TWO_PI = Fraction(2 * math.pi)


def circ_dist_float(nds, angle: float) -> Fraction:
    """the same distance with pi read as the double-precision constant the code reduces with (float % is exact)"""
    s = sum((Fraction(n, 1) / (Fraction(2) ** d) for n, d in nds), Fraction(0)) * F_PI
    diff = Fraction(angle) % F_TWO_PI - s
    k = round(diff / F_TWO_PI)
    return abs(diff - k * F_TWO_PI)


SLACK = Fraction(1, 10**13)


def within(nds, angle: float, tol) -> Fraction:
    """smaller of the two distances if one of the two readings of 'modulo 2 pi' is within tolerance, else raises"""
    d_true = circ_dist(nds, angle)
    if d_true < Fraction(tol) + SLACK:
        return d_true
    d_float = circ_dist_float(nds, angle)
    if d_float < Fraction(tol) + SLACK:
        return d_float
    raise _TooFar(min(d_true, d_float))


class _TooFar(Exception):
    pass


def check_angle(angle: float, tol, typ: str = "float") -> int:
    case = {"kind": "spec", "angle": repr(angle), "tol": None if tol is None else repr(tol)}
    sfx = ""
    if typ != "float":
        case["typ"] = typ
        sfx = ":" + typ
    eff_tol = 1e-4 if tol is None else tol
    shown = repr(angle) if typ == "float" else f"{typ}({angle!r})"
    try:
        nds = spec(angle, tol, typ)
    except _Timeout:
        raise
    except Exception as e:
        raise Failure("spec:raises" + sfx, case, f"get_angle_spec_from_float({shown}, {tol!r}) raised {type(e).__name__}: {e}")
    if len(nds) > MAX_STEPS:
        raise Failure("spec:too-many-steps" + sfx, case, f"{len(nds)} steps")
    for n, d in nds:
        if not (isinstance(n, int) and isinstance(d, int) and 0 <= n <= 255 and 0 <= d <= 255):
            raise Failure("spec:not-encodable" + sfx, case, f"step (n={n!r}, d={d!r}) of {nds} is not representable in 8-bit fields")
    try:
        within(nds, angle, eff_tol)
    except _TooFar as e:
        raise Failure(
            "spec:tolerance" + sfx, case, f"steps {nds} are {float(e.args[0]):.3e} away from angle {shown} (mod 2pi); tolerance {eff_tol!r}"
        )
    return len(nds)


def check_pipeline(angle: float, axis: str, typ: str = "float") -> int:
    from checks.c16 import _debug_conn
    from netqasm.backend.messages import deserialize_host_msg
    from netqasm.lang.parsing import deserialize
    from netqasm.sdk.qubit import Qubit

    case = {"kind": "pipeline", "angle": repr(angle), "axis": axis}
    sfx = ""
    if typ != "float":
        case["typ"] = typ
        sfx = ":" + typ
    conn = _debug_conn()
    q = Qubit(conn)
    try:
        getattr(q, "rot_" + axis)(angle=typed(angle, typ))
        conn.flush()
    except _Timeout:
        raise
    except Exception as e:
        raise Failure("pipeline:rejected" + sfx, case, f"q.rot_{axis}(angle={typ}:{angle!r}) raised {type(e).__name__}: {e}")
    subs = []
    for raw in conn.storage:
        m = deserialize_host_msg(raw)
        if type(m).__name__ == "SubroutineMessage":
            subs.append(deserialize(m.subroutine))
    got = [(i.angle_num.value, i.angle_denom.value) for s in subs for i in s.instructions if i.mnemonic.startswith("rot_")]
    mns = {i.mnemonic for s in subs for i in s.instructions if i.mnemonic.startswith("rot_")}
    if mns - {"rot_" + axis.lower()}:
        raise Failure("pipeline:axis" + sfx, case, f"emitted {mns}")
    want = [tuple(x) for x in spec(angle, None)]
    if got != want:
        raise Failure("pipeline:steps" + sfx, case, f"emitted rotation steps {got} for {typ} angle != angle spec {want}")
    try:
        within(got, angle, 1e-4)
    except _TooFar as e:
        raise Failure("pipeline:tolerance" + sfx, case, f"emitted steps {got} are {float(e.args[0]):.3e} from {typ} angle {angle!r}")
    return len(got)


def _hw_config(hw: str, nq: int):
    from netqasm.sdk.build_types import GenericHardwareConfig, NVHardwareConfig

    if hw == "nv":
        return {"hardware_config": NVHardwareConfig(nq)}
    if hw == "generic":
        return {"hardware_config": GenericHardwareConfig(nq)}
    return {}


def rotations_per_logical_qubit(instrs):
    """Interpret the emitted instructions with an address model that is independent of the builder:
    `set Qx v` loads a virtual address, qalloc creates a new logical qubit there, `mov a b` carries the logical qubit at a over to b
    (the qubit allocated at b just before was only the landing place), qfree releases the address.
    Returns (logical qubits in order of allocation that were not a landing place, each with its list of (mnemonic, n, d); problems)."""
    regs = {}
    at = {}  # virtual address -> token
    tokens = []
    problems = []
    for ins in instrs:
        mn = ins.mnemonic
        ops = ins.operands
        if mn == "set":
            if str(ops[0]).startswith("Q"):
                regs[str(ops[0])] = ops[1].value
            continue
        if mn == "qalloc":
            tok = {"rots": [], "landing": False, "addr0": regs.get(str(ops[0]))}
            tokens.append(tok)
            at[regs.get(str(ops[0]))] = tok
        elif mn == "qfree":
            at.pop(regs.get(str(ops[0])), None)
        elif mn == "mov":
            src, tgt = regs.get(str(ops[0])), regs.get(str(ops[1]))
            if src in at:
                if tgt in at:
                    at[tgt]["landing"] = True
                at[tgt] = at[src]
                at[src] = {"rots": [], "landing": True, "addr0": src}
            else:
                problems.append(f"mov from virtual address {src}, which holds no qubit")
        elif mn.startswith("rot_"):
            a = regs.get(str(ops[0]))
            step = (mn, ops[1].value, ops[2].value)
            if a not in at:
                problems.append(f"rotation step {mn} {step[1]} {step[2]} addresses virtual qubit {a}, which is not allocated at that point")
            else:
                at[a]["rots"].append(step)
    return [t for t in tokens if not t["landing"]], problems


def check_program(case) -> dict:
    """float-angle rotations in the middle of an SDK program: every step must arrive at the qubit the rotation was requested for"""
    from checks.c16 import _debug_conn
    from netqasm.backend.messages import deserialize_host_msg
    from netqasm.lang.parsing import deserialize
    from netqasm.sdk.qubit import Qubit

    conn = _debug_conn(**_hw_config(case["hw"], case["nq"]))
    live = []  # indices of logical qubits (order of creation) that are still allocated
    expected = []  # per logical qubit: the steps requested on it
    info = {"rots": 0, "steps": 0, "subs": 0, "shortcut": 0, "typed": 0}
    qubits = []
    prev = None
    try:
        for op in case["ops"]:
            kind = op[0]
            if kind == "new":
                qubits.append(Qubit(conn))
                expected.append([])
                live.append(len(qubits) - 1)
            elif kind == "flush":
                conn.flush()
            elif not live:
                continue
            elif kind == "rot":
                k = live[op[1] % len(live)]
                angle = float(op[3])
                getattr(qubits[k], "rot_" + op[2])(angle=typed(angle, op[4]))
                steps = [tuple(x) for x in spec(angle, None)]
                expected[k].append((op, steps))
                info["rots"] += 1
                info["steps"] += len(steps)
                info["typed"] += op[4] != "float"
            elif kind == "meas":
                k = live[op[1] % len(live)]
                if prev == "new" and case["hw"] == "nv" and k != len(qubits) - 1:
                    info["shortcut"] += 1
                qubits[k].measure()
                live.remove(k)
            elif kind == "gate":
                k = live[op[1] % len(live)]
                getattr(qubits[k], op[2])()
            else:
                raise ValueError(kind)
            prev = kind
        conn.flush()
    except _Timeout:
        raise
    except Exception as e:
        raise Failure("program:rejected", case, f"program with float-angle rotations raised {type(e).__name__}: {e} at {op}")
    instrs = []
    for raw in conn.storage:
        m = deserialize_host_msg(raw)
        if type(m).__name__ == "SubroutineMessage":
            info["subs"] += 1
            instrs.extend(deserialize(m.subroutine).instructions)
    info["moves"] = sum(1 for i in instrs if i.mnemonic == "mov")
    logical, problems = rotations_per_logical_qubit(instrs)
    if problems:
        raise Failure("program:step-on-unallocated-address", case, "; ".join(problems[:3]))
    if len(logical) != len(qubits):
        raise Failure("program:qubits", case, f"{len(qubits)} qubits were created, the subroutines allocate {len(logical)} (not counting landing places of mov)")
    for k, tok in enumerate(logical):
        want = [("rot_" + op[2].lower(), n, d) for op, steps in expected[k] for n, d in steps]
        if tok["rots"] != want:
            raise Failure(
                "program:steps-on-requested-qubit", case,
                f"qubit #{k} (allocated at virtual address {tok['addr0']}): rotations requested {[(o[2], o[3]) for o, _ in expected[k]]} -> steps {want}, but the subroutines apply {tok['rots']} to it",
            )
        for op, steps in expected[k]:
            try:
                within(steps, float(op[3]), 1e-4)
            except _TooFar as e:
                raise Failure("program:tolerance", case, f"steps {steps} emitted for rot_{op[2]}({op[4]} {op[3]}) are {float(e.args[0]):.3e} away")
    return info


TWO_PI_F = 2 * math.pi


def st_angle():
    eps = st.floats(1e-12, 1e-3) | st.sampled_from([1e-12, 1e-9, 1e-7, 1e-5, 1e-4, 2e-4, 3.1e-4, 1e-3, 1e-20, 5e-324, 2.2e-308])
    near0 = st.builds(lambda e, s: s * e, eps, st.sampled_from([1, -1]))
    near2pi = st.builds(lambda e, s, k: k * TWO_PI_F + s * e, eps, st.sampled_from([1, -1]), st.integers(-3, 3))
    dyadic = st.builds(lambda n, d, s: s * n * math.pi / 2**d, st.integers(0, 1024), st.integers(0, 40), st.sampled_from([1, -1]))
    uniform = st.floats(-TWO_PI_F, 2 * TWO_PI_F, allow_nan=False)
    wide = st.floats(-1000 * TWO_PI_F, 1000 * TWO_PI_F, allow_nan=False, allow_infinity=False) | st.floats(allow_nan=False, allow_infinity=False) | st.builds(
        lambda e, m, s_: s_ * m * 10.0**e, st.integers(3, 300), st.floats(1.0, 10.0), st.sampled_from([1, -1]))
    special = st.sampled_from([0.0, -0.0, math.pi, -math.pi, TWO_PI_F, -TWO_PI_F, math.pi / 2, 0.0002, 1e-4, math.nextafter(TWO_PI_F, 0), math.nextafter(TWO_PI_F, 10)])
    return st.one_of(uniform, uniform, near0, near2pi, dyadic, wide, special)


def st_tol():
    return st.one_of(
        st.none(),
        st.sampled_from([1e-2, 1e-3, 1e-4, 1e-5, 1e-6, 1e-7, 1e-8, 1e-9]),
        st.floats(-9.0, -2.0).map(lambda e: 10.0**e),
    )


def st_typ():
    return st.sampled_from(TYPES[1:])


def st_program():
    qi = st.integers(0, 2)
    typ = st.sampled_from(("float", "float") + TYPES[1:])
    rot = st.tuples(st.just("rot"), qi, st.sampled_from("XYZ"), st_angle().map(repr), typ).map(list)
    meas = st.tuples(st.just("meas"), qi).map(list)
    new = st.just(["new"])
    flush = st.just(["flush"])
    gate = st.tuples(st.just("gate"), qi, st.sampled_from(["H", "X", "Z"])).map(list)
    # chunks: single operations and the two usual pairs (rotate a qubit and measure it; create a qubit and directly measure an older one)
    chunk = st.one_of(
        rot.map(lambda r: [r]),
        meas.map(lambda m: [m]),
        new.map(lambda n: [n]),
        flush.map(lambda f: [f]),
        gate.map(lambda g: [g]),
        st.tuples(rot, st.booleans()).map(lambda t: [t[0], ["meas", t[0][1]]]),
        st.tuples(new, qi).map(lambda t: [t[0], ["meas", t[1]]]),
    )
    return st.builds(
        lambda hw, k, fl, chunks: {
            "kind": "program",
            "hw": hw,
            "nq": 8,
            "ops": [["new"]] * k + ([["flush"]] if fl else []) + [o for c in chunks for o in c],
        },
        st.sampled_from(["nv", "nv", "nv", "generic", "default"]),
        st.sampled_from([1, 2, 2, 3]),
        st.sampled_from([True, True, True, False]),
        st.lists(chunk, min_size=1, max_size=8),
    )


def shard(ctx: Ctx) -> None:
    stt = ctx.stats
    n = 20000 if ctx.tier == "quick" else 200000

    def guarded(fn, case, *a):
        """bound every call: the loop under test is driven by float arithmetic"""
        old = signal.signal(signal.SIGALRM, _alarm)
        old_t = signal.alarm(10)
        try:
            return fn(*a)
        except _Timeout:
            raise Failure("spec:does-not-terminate", case, "call did not return within 10 s")
        finally:
            signal.alarm(0)
            signal.signal(signal.SIGALRM, old)
            if old_t:
                signal.alarm(old_t)

    def body(t):
        angle, tol = t
        steps = guarded(check_angle, {"kind": "spec", "angle": repr(angle), "tol": repr(tol)}, angle, tol)
        eff = 1e-4 if tol is None else tol
        red = math.fmod(angle, TWO_PI_F)
        near = min(abs(red), abs(abs(red) - TWO_PI_F)) < eff
        labels = [f"steps:{min(steps, 5)}", "near0" if near else "far", "neg" if angle < 0 else "pos", "default-tol" if tol is None else "tol"]
        stt.case([repr(angle), repr(tol)], not near, labels, sample={"angle": angle, "tol": tol, "steps": spec(angle, tol)})

    ctx.search(st.tuples(st_angle(), st_tol()), body, n, name="c19")

    def body_hist(t):
        # the result may not depend on earlier calls: same angle, coarse tolerance first, then a finer one
        angle, tol_a, tol_b = t
        coarse, fine = max(tol_a, tol_b), min(tol_a, tol_b)
        guarded(check_angle, {"kind": "history", "angle": repr(angle), "tols": [repr(coarse), repr(fine)]}, angle, coarse)
        try:
            guarded(check_angle, {"kind": "history", "angle": repr(angle), "tols": [repr(coarse), repr(fine)]}, angle, fine)
        except Failure as f:
            raise Failure(f.signature + ":after-coarser-call", {"kind": "history", "angle": repr(angle), "tols": [repr(coarse), repr(fine)]}, f.message + f" (after a call for the same angle with tolerance {coarse!r})")
        stt.case(["hist", repr(angle), repr(coarse), repr(fine)], coarse != fine, ["history"])

    ctx.search(st.tuples(st_angle(), st.floats(-9.0, -2.0).map(lambda e: 10.0**e), st.floats(-9.0, -2.0).map(lambda e: 10.0**e)), body_hist, n // 10, name="c19-hist", salt=2)

    def body_p(t):
        angle, axis = t
        steps = guarded(check_pipeline, {"kind": "pipeline", "angle": repr(angle), "axis": axis}, angle, axis)
        stt.case(["pipe", repr(angle), axis], steps >= 1, [f"pipeline:{axis}"])

    ctx.search(st.tuples(st_angle(), st.sampled_from("XYZ")), body_p, n // 40, name="c19-pipe", salt=1)

    def body_typed(t):
        # numpy.float64 and instances of float subclasses are floats: same domain, same oracle
        angle, tol, typ = t
        steps = guarded(check_angle, {"kind": "spec", "angle": repr(angle), "tol": repr(tol), "typ": typ}, angle, tol, typ)
        eff = 1e-4 if tol is None else tol
        red = math.fmod(angle, TWO_PI_F)
        near = min(abs(red), abs(abs(red) - TWO_PI_F)) < eff
        stt.case(["typed", typ, repr(angle), repr(tol)], not near, ["type:" + typ, f"type:{typ}:" + ("neg" if angle < 0 else "pos")])

    ctx.search(st.tuples(st_angle(), st_tol(), st_typ()), body_typed, n // 10, name="c19-typed", salt=3)

    def body_tp(t):
        angle, axis, typ = t
        steps = guarded(check_pipeline, {"kind": "pipeline", "angle": repr(angle), "axis": axis, "typ": typ}, angle, axis, typ)
        stt.case(["pipe", typ, repr(angle), axis], steps >= 1, [f"pipeline:{typ}"])

    ctx.search(st.tuples(st_angle(), st.sampled_from("XYZ"), st_typ()), body_tp, n // 100, name="c19-pipe-typed", salt=4)

    def body_prog(case):
        info = guarded(check_program, case, case)
        labels = ["program:" + case["hw"], f"program:subroutines:{min(info['subs'], 4)}"]
        if info["moves"]:
            labels.append("program:relocation-by-mov")
        if info["shortcut"]:
            labels.append("program:fresh-qubit-then-measure-other(nv)")
        if info["typed"]:
            labels.append("program:typed-angle")
        stt.case(["prog", case["hw"], case["ops"]], info["steps"] >= 1, labels)

    ctx.search(st_program(), body_prog, n // 20, name="c19-program", salt=5)


def replay(case):
    signal.signal(signal.SIGALRM, _alarm)
    signal.alarm(20)
    try:
        if case["kind"] == "history":
            for t in case["tols"]:
                check_angle(float(case["angle"]), float(t))
        elif case["kind"] == "spec":
            tol = case["tol"]
            check_angle(float(case["angle"]), None if tol in (None, "None") else float(tol), case.get("typ", "float"))
        elif case["kind"] == "program":
            check_program(case)
        else:
            check_pipeline(float(case["angle"]), case["axis"], case.get("typ", "float"))
    except _Timeout:
        return Failure("spec:does-not-terminate", case, "timeout")
    except Failure as f:
        return f
    finally:
        signal.alarm(0)
    return None
