"""C19 — float angles are approximated within tolerance by encodable rotations."""
from __future__ import annotations

import math
import signal
from fractions import Fraction

from hypothesis import strategies as st

from vlib.runner import Ctx, Failure

LEVEL = "exploration"
RULE = (
    "Hypothesis floats over the whole finite range (log-uniform magnitudes to 1e300, all finite doubles) incl. negatives, exact dyadic multiples of pi, values within 1e-12..1e-3 of 0 "
    "and of 2pi (both sides), subnormals, -0.0; tolerance 1e-9..1e-2 (log-uniform + the default 1e-4).  Oracle: exact "
    "rational sum of n_i/2^d_i times pi vs. the angle, circular distance < tol (+1e-13), with pi read as the real number (60 digits) or as the double the code reduces with - either reading is accepted, "
    "every n,d an int in 0..255, bounded number of steps; pipeline: q.rot_X/Y/Z(angle=a) emits exactly these steps.  "
    "Non-trivial = angle not within tol of 0 mod 2pi (>=1 step needed); distinct by (angle, tol)"
)
ASSUMPTIONS = [
    "'modulo 2 pi' may be read with the exact real pi or with the double-precision constant 2*pi (Python's float % is exact, so the code's own reduction has no error under that reading); a result within tolerance under either reading is accepted, so an implementation that reduces with extended precision is not reported",
    "tolerance is the docstring's: abs(sum_i n_i pi/2^d_i - angle) < tol, read modulo 2pi",
]
SHARDS = {"quick": 1, "thorough": 16}

PI = Fraction("3.14159265358979323846264338327950288419716939937510582097494")
TWO_PI = 2 * PI
MAX_STEPS = 64


class _Timeout(Exception):
    pass


def _alarm(signum, frame):
    raise _Timeout()


def spec(angle: float, tol):
    from netqasm.sdk.toolbox.state_prep import get_angle_spec_from_float

    if tol is None:
        return get_angle_spec_from_float(angle)
    return get_angle_spec_from_float(angle, tol)


def circ_dist(nds, angle: float) -> Fraction:
    s = sum((Fraction(n, 1) / (Fraction(2) ** d) for n, d in nds), Fraction(0)) * PI
    diff = Fraction(angle) - s
    k = round(diff / TWO_PI)
    return abs(diff - k * TWO_PI)


F_PI = Fraction(math.pi)
F_TWO_PI = Fraction(2 * math.pi)


def circ_dist_float(nds, angle: float) -> Fraction:
    """the same distance with pi read as the double-precision constant the code reduces with (float % is exact)"""
    s = sum((Fraction(n, 1) / (Fraction(2) ** d) for n, d in nds), Fraction(0)) * F_PI
    diff = Fraction(angle) % F_TWO_PI - s
    k = round(diff / F_TWO_PI)
    return abs(diff - k * F_TWO_PI)


SLACK = Fraction(1, 10**13)


def within(nds, angle: float, tol) -> Fraction:
    """smaller of the two distances if one of the two readings of 'modulo 2 pi' is within tolerance, else raises"""
    d_true = circ_dist(nds, angle)
    if d_true < Fraction(tol) + SLACK:
        return d_true
    d_float = circ_dist_float(nds, angle)
    if d_float < Fraction(tol) + SLACK:
        return d_float
    raise _TooFar(min(d_true, d_float))


class _TooFar(Exception):
    pass


def check_angle(angle: float, tol) -> int:
    case = {"kind": "spec", "angle": repr(angle), "tol": None if tol is None else repr(tol)}
    eff_tol = 1e-4 if tol is None else tol
    try:
        nds = spec(angle, tol)
    except _Timeout:
        raise
    except Exception as e:
        raise Failure("spec:raises", case, f"get_angle_spec_from_float({angle!r}, {tol!r}) raised {type(e).__name__}: {e}")
    if len(nds) > MAX_STEPS:
        raise Failure("spec:too-many-steps", case, f"{len(nds)} steps")
    for n, d in nds:
        if not (isinstance(n, int) and isinstance(d, int) and 0 <= n <= 255 and 0 <= d <= 255):
            raise Failure("spec:not-encodable", case, f"step (n={n!r}, d={d!r}) of {nds} is not representable in 8-bit fields")
    try:
        within(nds, angle, eff_tol)
    except _TooFar as e:
        raise Failure(
            "spec:tolerance", case, f"steps {nds} are {float(e.args[0]):.3e} away from angle {angle!r} (mod 2pi); tolerance {eff_tol!r}"
        )
    return len(nds)


def check_pipeline(angle: float, axis: str) -> int:
    from checks.c16 import _debug_conn
    from netqasm.backend.messages import deserialize_host_msg
    from netqasm.lang.parsing import deserialize
    from netqasm.sdk.qubit import Qubit

    case = {"kind": "pipeline", "angle": repr(angle), "axis": axis}
    conn = _debug_conn()
    q = Qubit(conn)
    try:
        getattr(q, "rot_" + axis)(angle=angle)
        conn.flush()
    except _Timeout:
        raise
    except Exception as e:
        raise Failure("pipeline:rejected", case, f"q.rot_{axis}(angle={angle!r}) raised {type(e).__name__}: {e}")
    subs = []
    for raw in conn.storage:
        m = deserialize_host_msg(raw)
        if type(m).__name__ == "SubroutineMessage":
            subs.append(deserialize(m.subroutine))
    got = [(i.angle_num.value, i.angle_denom.value) for s in subs for i in s.instructions if i.mnemonic.startswith("rot_")]
    mns = {i.mnemonic for s in subs for i in s.instructions if i.mnemonic.startswith("rot_")}
    if mns - {"rot_" + axis.lower()}:
        raise Failure("pipeline:axis", case, f"emitted {mns}")
    want = [tuple(x) for x in spec(angle, None)]
    if got != want:
        raise Failure("pipeline:steps", case, f"emitted rotation steps {got} != angle spec {want}")
    try:
        within(got, angle, 1e-4)
    except _TooFar as e:
        raise Failure("pipeline:tolerance", case, f"emitted steps {got} are {float(e.args[0]):.3e} from {angle!r}")
    return len(got)


TWO_PI_F = 2 * math.pi


def st_angle():
    eps = st.floats(1e-12, 1e-3) | st.sampled_from([1e-12, 1e-9, 1e-7, 1e-5, 1e-4, 2e-4, 3.1e-4, 1e-3, 1e-20, 5e-324, 2.2e-308])
    near0 = st.builds(lambda e, s: s * e, eps, st.sampled_from([1, -1]))
    near2pi = st.builds(lambda e, s, k: k * TWO_PI_F + s * e, eps, st.sampled_from([1, -1]), st.integers(-3, 3))
    dyadic = st.builds(lambda n, d, s: s * n * math.pi / 2**d, st.integers(0, 1024), st.integers(0, 40), st.sampled_from([1, -1]))
    uniform = st.floats(-TWO_PI_F, 2 * TWO_PI_F, allow_nan=False)
    wide = st.floats(-1000 * TWO_PI_F, 1000 * TWO_PI_F, allow_nan=False, allow_infinity=False) | st.floats(allow_nan=False, allow_infinity=False) | st.builds(
        lambda e, m, s_: s_ * m * 10.0**e, st.integers(3, 300), st.floats(1.0, 10.0), st.sampled_from([1, -1]))
    special = st.sampled_from([0.0, -0.0, math.pi, -math.pi, TWO_PI_F, -TWO_PI_F, math.pi / 2, 0.0002, 1e-4, math.nextafter(TWO_PI_F, 0), math.nextafter(TWO_PI_F, 10)])
    return st.one_of(uniform, uniform, near0, near2pi, dyadic, wide, special)


def st_tol():
    return st.one_of(
        st.none(),
        st.sampled_from([1e-2, 1e-3, 1e-4, 1e-5, 1e-6, 1e-7, 1e-8, 1e-9]),
        st.floats(-9.0, -2.0).map(lambda e: 10.0**e),
    )


def shard(ctx: Ctx) -> None:
    stt = ctx.stats
    n = 20000 if ctx.tier == "quick" else 200000

    def guarded(fn, case, *a):
        """bound every call: the loop under test is driven by float arithmetic"""
        old = signal.signal(signal.SIGALRM, _alarm)
        old_t = signal.alarm(10)
        try:
            return fn(*a)
        except _Timeout:
            raise Failure("spec:does-not-terminate", case, "call did not return within 10 s")
        finally:
            signal.alarm(0)
            signal.signal(signal.SIGALRM, old)
            if old_t:
                signal.alarm(old_t)

    def body(t):
        angle, tol = t
        steps = guarded(check_angle, {"kind": "spec", "angle": repr(angle), "tol": repr(tol)}, angle, tol)
        eff = 1e-4 if tol is None else tol
        red = math.fmod(angle, TWO_PI_F)
        near = min(abs(red), abs(abs(red) - TWO_PI_F)) < eff
        labels = [f"steps:{min(steps, 5)}", "near0" if near else "far", "neg" if angle < 0 else "pos", "default-tol" if tol is None else "tol"]
        stt.case([repr(angle), repr(tol)], not near, labels, sample={"angle": angle, "tol": tol, "steps": spec(angle, tol)})

    ctx.search(st.tuples(st_angle(), st_tol()), body, n, name="c19")

    def body_hist(t):
        # the result may not depend on earlier calls: same angle, coarse tolerance first, then a finer one
        angle, tol_a, tol_b = t
        coarse, fine = max(tol_a, tol_b), min(tol_a, tol_b)
        guarded(check_angle, {"kind": "history", "angle": repr(angle), "tols": [repr(coarse), repr(fine)]}, angle, coarse)
        try:
            guarded(check_angle, {"kind": "history", "angle": repr(angle), "tols": [repr(coarse), repr(fine)]}, angle, fine)
        except Failure as f:
            raise Failure(f.signature + ":after-coarser-call", {"kind": "history", "angle": repr(angle), "tols": [repr(coarse), repr(fine)]}, f.message + f" (after a call for the same angle with tolerance {coarse!r})")
        stt.case(["hist", repr(angle), repr(coarse), repr(fine)], coarse != fine, ["history"])

    ctx.search(st.tuples(st_angle(), st.floats(-9.0, -2.0).map(lambda e: 10.0**e), st.floats(-9.0, -2.0).map(lambda e: 10.0**e)), body_hist, n // 10, name="c19-hist", salt=2)

    def body_p(t):
        angle, axis = t
        steps = guarded(check_pipeline, {"kind": "pipeline", "angle": repr(angle), "axis": axis}, angle, axis)
        stt.case(["pipe", repr(angle), axis], steps >= 1, [f"pipeline:{axis}"])

    ctx.search(st.tuples(st_angle(), st.sampled_from("XYZ")), body_p, n // 40, name="c19-pipe", salt=1)


def replay(case):
    signal.signal(signal.SIGALRM, _alarm)
    signal.alarm(20)
    try:
        if case["kind"] == "history":
            for t in case["tols"]:
                check_angle(float(case["angle"]), float(t))
        elif case["kind"] == "spec":
            tol = case["tol"]
            check_angle(float(case["angle"]), None if tol in (None, "None") else float(tol))
        else:
            check_pipeline(float(case["angle"]), case["axis"])
    except _Timeout:
        return Failure("spec:does-not-terminate", case, "timeout")
    except Failure as f:
        return f
    finally:
        signal.alarm(0)
    return None
