"""C10 — entanglement looks like Phi+ whatever Bell state the link delivered.

The scripted stack inserts, per pair, a local half and a modelled remote partner into the harness
state vector in the reported Bell state; after the SDK's corrections each (local, partner) pair must
be Phi+ (or exactly the delivered state with the expectation off).  Measure-directly outcomes are
compared with the exact Phi+ statistics in the requested bases.
"""
from __future__ import annotations

import itertools
from typing import Any, Dict, List

import numpy as np
from hypothesis import strategies as st

from vlib import quantum as qm
from vlib.runner import Ctx, Failure

LEVEL = "exploration"
RULE = (
    "enumerated: pair count 1..3 (thorough 1..4) x all Bell-state tuples x variant {recv_keep, recv_keep_with_info, recv_keep "
    "sequential+post-routine (also post routines with classical temporaries of their own), recv_rsp, recv_rsp_with_info, create_keep} x {generic, NV hardware} x 0..2 other live qubits "
    "created first (prepared |1>, |+>) x expect_phi_plus {on, off}; measure-directly: 4 Bell states x 6 named bases x both "
    "outcomes, via result objects with explicit bases and via recv_measure(); quick adds a Hypothesis sample of 4-pair "
    "tuples.  Hardware also described by instances of subclasses of NVHardwareConfig / GenericHardwareConfig.  recv_measure() as a later "
    "operation on its socket: after one earlier operation of every kind (recv_keep, recv_keep with a post routine, sequential or not, "
    "recv_rsp, recv_measure, create_keep; own or same subroutine) and after Hypothesis-generated histories of up to 4 operations; "
    "keep requests after an earlier recv_measure.  Non-trivial = >=1 delivered pair not Phi+; distinct by (tuple, variant, hardware, others, expectation)"
)
ASSUMPTIONS = [
    "Bell numbering of qlink_compat.BellState; remote partners are modelled inside the harness state vector and never touched",
    "named measurement bases are the rotation triples of basis_to_rotation (x1, y, x2 in units of pi/16) followed by a Z measurement",
    "mov is modelled as a swap onto a freshly initialised target",
]
SHARDS = {"quick": 4, "thorough": 16}
TOL = 1e-9

KF_BASIS = "recv-measure-basis-unknown"
KF_RSP_NV = "recv-rsp-nv-multi-pair-blocks"
VARIANTS = ["recv_keep", "recv_keep_with_info", "recv_keep_seq", "recv_rsp", "recv_rsp_with_info", "create_keep"]


def run_keep(case) -> None:
    from netqasm.sdk.build_types import GenericHardwareConfig, NVHardwareConfig
    from netqasm.sdk.epr_socket import EPRSocket
    from netqasm.sdk.qubit import Qubit
    from vlib import net, sim

    n = len(case["bells"])
    variant = case["variant"]
    expect = case["expect"]
    from netqasm.sdk.build_types import HardwareConfig

    class LabNVConfig(NVHardwareConfig):
        """NV hardware described by a subclass of the documented class (extra bookkeeping only)"""

        def __init__(self, num_qubits, name="lab-1"):
            super().__init__(num_qubits)
            self.name = name

    class LabGenericConfig(GenericHardwareConfig):
        """generic hardware described by a subclass of the documented class"""

        def __init__(self, num_qubits, name="lab-2"):
            super().__init__(num_qubits)
            self.name = name

    hw = {"nv-sub": lambda: LabNVConfig(5), "generic-sub": lambda: LabGenericConfig(5), "nv": lambda: NVHardwareConfig(5), "nv2": lambda: NVHardwareConfig(2), "nv3": lambda: NVHardwareConfig(3), "generic2": lambda: GenericHardwareConfig(2),
          "generic": lambda: GenericHardwareConfig(5), "generic1": lambda: GenericHardwareConfig(1),
          "custom1": lambda: HardwareConfig(1, 4)}[case["hardware"]]()
    sock = EPRSocket("bob")
    extra: Dict[str, Any] = {"hardware_config": hw}
    if case.get("compiler") == "nv":
        # NV selected through the compiler argument (with a generic hardware config, or none at all, passed along)
        from netqasm.lang.instr.flavour import NVFlavour
        from netqasm.sdk.transpile import NVSubroutineTranspiler

        extra = {"compiler": NVSubroutineTranspiler, "flavour": NVFlavour()}
        if case.get("hardware_given") == "generic":
            extra["hardware_config"] = GenericHardwareConfig(5)
        elif case.get("hardware_given") == "nv":
            extra["hardware_config"] = hw
    size = {"nv2": 2, "nv3": 3, "generic2": 2}.get(case["hardware"], 5)
    ctrl, conn = sim.fresh(sim.StateVectorExecutor, network_stack_cls=net.ScriptedNetworkStack, epr_sockets=[sock], max_qubits=size, **extra)
    ex = ctrl._executor
    stack = ctrl.network_stack
    others = []
    for k in range(case["others"]):
        q = Qubit(conn)
        if k == 0:
            q.X()
        else:
            q.H()
        others.append(q)
    prelude = case.get("prelude")
    # (signature suffix for the histories in which the earlier request on the socket was a measure request)
    hist = ":after-" + prelude[0] if prelude and prelude[0] == "recv_measure" else ""
    if prelude:
        kind = prelude[0]
        if kind in ("recv_rsp", "recv_keep", "create_keep"):
            pq = getattr(sock, kind)(number=1)
            stack.expect("create" if kind == "create_keep" else "recv", "K", 1, [{"bell_state": prelude[1]}])
            pq[0].measure()
        elif kind == "recv_measure":
            # an earlier measure-directly request on the same socket (no qubit, no handle left behind)
            sock.recv_measure(number=1)
            stack.expect("recv", "M", 1, [{"bell_state": prelude[1], "measurement_outcome": 1}])
        elif kind == "new_register":
            conn.builder.new_register(3)
        if len(prelude) > 2 and prelude[2]:
            try:
                conn.flush()
            except Exception as e:
                raise Failure(f"prelude-flush-raises:{kind}", case, f"flush of the earlier request ({kind}) raised {type(e).__name__}: {str(e).splitlines()[0][:200]}")
        n_prelude_pairs = len(stack.pair_log) + (1 if kind in ("recv_rsp", "recv_keep", "create_keep") and not (len(prelude) > 2 and prelude[2]) else 0)
    else:
        n_prelude_pairs = 0
    measured: Dict[int, float] = {}  # pair index -> fidelity with Phi+ when its local half was consumed
    delivered_order: List[int] = []

    def before_measure(phys):
        if phys in stack.partners:
            partner = stack.partners[phys]
            idx = next(i for i, p in enumerate(stack.pair_log) if p["partner"] == partner) - n_prelude_pairs
            rho = ex.sv.reduced([phys, partner])
            measured[idx] = (qm.fidelity_pure(rho, qm.BELL_VECS[0]), qm.fidelity_pure(rho, qm.BELL_VECS[stack.pair_log[idx + n_prelude_pairs]["bell"]]))

    ex.before_measure_hook = before_measure
    kw: Dict[str, Any] = {}
    role = "create" if variant == "create_keep" else "recv"
    api = {"recv_keep_seq": "recv_keep", "recv_keep_post": "recv_keep", "recv_keep_seq1": "recv_keep", "recv_keep_with_info_seq1": "recv_keep_with_info"}.get(variant, variant)
    if variant.endswith("_seq1"):
        kw["sequential"] = True  # one pair, handled pair by pair, but nothing registered to handle it
    if role == "recv" and not (expect and case.get("expect_by_default")):
        kw["expect_phi_plus"] = expect  # (left out when the case relies on the documented default, True)
    outcomes = None
    if variant in ("recv_keep_seq", "recv_keep_post"):
        outcomes = conn.new_array(n)
        tally = conn.new_array(1, init_values=[0]) if case.get("post_kind") else None

        def post(c, q, pair):
            q.measure(future=outcomes.get_future_index(pair))
            if case.get("post_kind") == "tally":
                # a post routine that needs classical temporaries of its own: it keeps a count on the node
                tally.get_future_index(0).add(1)
            elif case.get("post_kind") == "if":
                with outcomes.get_future_index(pair).if_eq(1):
                    tally.get_future_index(0).add(1)

        kw.update(sequential=variant == "recv_keep_seq", post_routine=post)
    try:
        res = getattr(sock, api)(number=n, **kw)
    except ValueError as e:
        # every generated request fits the device (pairs + other live qubits + the spare slot a single-communication-qubit device needs)
        raise Failure(f"call-rejected:{variant}:{case['hardware']}", case, f"{api}(number={n}) with {case['others']} other live qubits on {case['hardware']} hardware was rejected: ValueError: {str(e)[:160]}")
    except AssertionError as e:
        import traceback

        fr = traceback.extract_tb(e.__traceback__)[-1]
        raise Failure(f"sdk-assert:{variant}:{case['hardware']}:{fr.name}", case, f"{api}(number={n}) with {case['others']} other live qubits on {case['hardware']} hardware hits an assertion in {fr.name}: {fr.line}")
    qubits = res[0] if api.endswith("with_info") else res
    stack.expect(role, "K", n, [{"bell_state": b, "as_qlink10": case.get("wire") in ("qlink10", "qlink10-int"), "qlink10_int": case.get("wire") == "qlink10-int"} for b in case["bells"]])
    try:
        conn.flush()
    except sim.WouldBlock:
        raise Failure(f"blocks:{variant}:{case['hardware']}{hist}", case, f"{variant} with {n} pairs on {case['hardware']} hardware waits forever: a delivered pair can never be mapped to its virtual qubit")
    except Exception as e:
        raise Failure(f"flush-raises:{variant}:{case['hardware']}{hist}", case, f"flush raised {type(e).__name__}: {str(e).splitlines()[0][:200]}")
    app = conn.app_id
    um = ex._qubit_unit_modules[app]
    sv = ex.sv
    want_phi = expect and role == "recv"
    for i, b in enumerate(case["bells"]):
        target_vec = qm.BELL_VECS[0] if want_phi else qm.BELL_VECS[b]
        if variant in ("recv_keep_seq", "recv_keep_post"):
            if i not in measured:
                raise Failure(f"pair-not-consumed:{variant}", case, f"pair {i} was never measured by the post routine")
            f_phi, f_orig = measured[i]
            f = f_phi if want_phi else f_orig
        else:
            q = qubits[i]
            phys = um[q.qubit_id] if q.qubit_id < len(um) else None
            if phys is None:
                raise Failure(f"qubit-missing:{variant}:{case['hardware']}{hist}", case, f"handle of pair {i} has virtual id {q.qubit_id}, which is not allocated on the controller")
            partner = stack.pair_log[i + n_prelude_pairs]["partner"]
            rho = sv.reduced([phys, partner])
            f = qm.fidelity_pure(rho, target_vec)
        if abs(f - 1) > 1e-7:
            what = "Phi+" if want_phi else f"the delivered Bell state {b} (nothing should be corrected)"
            raise Failure(
                f"fidelity:{variant}:{case['hardware']}:{'multi' if n > 1 else 'single'}:{'others' if case['others'] else 'alone'}" + (":qlink10" if case.get("wire") == "qlink10" else "") + hist,
                case,
                f"pair {i} (delivered Bell state {b}) has fidelity {f:.3f} with {what} after the subroutine",
            )
    # the other live qubits are untouched
    for k, q in enumerate(others):
        phys = um[q.qubit_id]
        rho = sv.reduced([phys])
        vec = np.array([0, 1], dtype=complex) if k == 0 else np.array([1, 1], dtype=complex) / np.sqrt(2)
        f = qm.fidelity_pure(rho, vec)
        if abs(f - 1) > 1e-7:
            raise Failure(f"other-qubit-disturbed:{variant}:{case['hardware']}", case, f"live qubit {k} (virtual {q.qubit_id}) was changed by the EPR corrections (fidelity {f:.3f} with its prepared state)")


class Rejected(Exception):
    pass


# ------------------------------------------------------------------ measure directly


def basis_unitary(rot) -> np.ndarray:
    x1, y, x2 = rot
    return qm.rot("x", qm.angle(x2, 4)) @ qm.rot("y", qm.angle(y, 4)) @ qm.rot("x", qm.angle(x1, 4))


def joint_distribution(bell: int, rot_a, rot_b) -> np.ndarray:
    psi = np.kron(basis_unitary(rot_a), basis_unitary(rot_b)) @ qm.BELL_VECS[bell]
    return (np.abs(psi) ** 2).reshape(2, 2)  # [creator outcome, receiver outcome]


def _deser_measure(params, arr):
    """internal helper of the SDK: pass the receiver role only if this tree's helper takes one"""
    import inspect

    from netqasm.qlink_compat import EPRRole
    from netqasm.sdk.build_epr import deserialize_epr_measure_results as f

    return f(params, arr, EPRRole.RECV) if len(inspect.signature(f).parameters) >= 3 else f(params, arr)


def run_measure(case) -> None:
    """all raw outcome pairs in the support of the delivered state; post-processed pair must follow Phi+ statistics"""
    from netqasm.qlink_compat import EPRRole
    from netqasm.sdk.build_epr import EntRequestParams, EprMeasBasis, basis_to_rotation, deserialize_epr_measure_results
    from netqasm.sdk.epr_socket import EPRSocket
    from vlib import net, sim

    basis = EprMeasBasis[case["basis"]]
    rot = basis_to_rotation(basis)
    bell = case["bell"]
    P = joint_distribution(bell, rot, rot)
    Pphi = joint_distribution(0, rot, rot)
    Ppost = np.zeros((2, 2))
    for a in (0, 1):
        for b in (0, 1):
            if P[a, b] < 1e-12:
                continue
            sock = EPRSocket("bob")
            ctrl, conn = sim.fresh(sim.TraceExecutor, network_stack_cls=net.ScriptedNetworkStack, epr_sockets=[sock], max_qubits=5)
            stack = ctrl.network_stack
            if case["route"] == "explicit":
                # result objects built with the bases the creator used (the 48-row table itself)
                params = EntRequestParams(remote_node_id=1, epr_socket_id=0, number=1, post_routine=None, sequential=False,
                                          expect_phi_plus=case["expect"], rotations_local=rot, rotations_remote=rot)
                arr = conn.builder._alloc_ent_results_array(number=1, tp=__import__("netqasm.qlink_compat", fromlist=["EPRType"]).EPRType.M)
                conn.builder._build_cmds_epr_recv_measure(arr, True, params)
                results = _deser_measure(params, arr)
            else:
                results = sock.recv_measure(number=1, expect_phi_plus=case["expect"])
            stack.expect("recv", "M", 1, [{"bell_state": bell, "measurement_outcome": b, "as_qlink10": case.get("wire") in ("qlink10", "qlink10-int"), "qlink10_int": case.get("wire") == "qlink10-int"}])
            try:
                conn.flush()
            except Exception as e:
                raise Failure(f"measure:flush-raises:{case['route']}", case, f"{type(e).__name__}: {str(e).splitlines()[0][:160]}")
            try:
                bp = results[0].measurement_outcome
            except Exception as e:
                raise Failure(f"measure:outcome-raises:{case['route']}", case, f"measurement_outcome raised {type(e).__name__}: {str(e)[:160]}")
            if bp not in (0, 1):
                raise Failure(f"measure:not-a-bit:{case['route']}", case, f"post-processed outcome {bp!r}")
            Ppost[a, bp] += P[a, b]
    want = Pphi if case["expect"] else P
    if np.max(np.abs(Ppost - want)) > TOL:
        raise Failure(
            f"measure:statistics:{case['route']}:{'zlike' if case['basis'] in ('Z', 'MZ') else 'xy'}",
            case,
            f"basis {case['basis']}, delivered Bell state {bell}, expect_phi_plus={case['expect']}: joint distribution of (creator outcome, receiver post-processed outcome) is "
            f"{Ppost.round(3).tolist()}, required {want.round(3).tolist()}",
        )


def expected_flip(bell: int, rot) -> int:
    """1 if outcomes of `bell` measured in (rot, rot) are those of Phi+ with the receiver's bit flipped, else 0"""
    P = joint_distribution(bell, rot, rot)
    Pphi = joint_distribution(0, rot, rot)
    if np.max(np.abs(P - Pphi)) < 1e-9:
        return 0
    if np.max(np.abs(P - Pphi[:, ::-1])) < 1e-9:
        return 1
    raise AssertionError("Bell state statistics are neither those of Phi+ nor their flip")


def run_measure_multi(case) -> None:
    """several pairs in one measure-directly request: pair i must be post-processed with pair i's Bell state"""
    from netqasm.qlink_compat import EPRRole, EPRType
    from netqasm.sdk.build_epr import EntRequestParams, EprMeasBasis, basis_to_rotation, deserialize_epr_measure_results
    from netqasm.sdk.epr_socket import EPRSocket
    from vlib import net, sim

    rot = basis_to_rotation(EprMeasBasis[case["basis"]])
    bells = case["bells"]
    raws = case["raws"]
    n = len(bells)
    sock = EPRSocket("bob")
    ctrl, conn = sim.fresh(sim.TraceExecutor, network_stack_cls=net.ScriptedNetworkStack, epr_sockets=[sock], max_qubits=5)
    stack = ctrl.network_stack
    if case["route"] == "explicit":
        params = EntRequestParams(remote_node_id=1, epr_socket_id=0, number=n, post_routine=None, sequential=False, expect_phi_plus=True, rotations_local=rot, rotations_remote=rot)
        arr = conn.builder._alloc_ent_results_array(number=n, tp=EPRType.M)
        conn.builder._build_cmds_epr_recv_measure(arr, True, params)
        results = _deser_measure(params, arr)
    else:
        results = sock.recv_measure(number=n)
    stack.expect("recv", "M", n, [{"bell_state": b, "measurement_outcome": r} for b, r in zip(bells, raws)])
    conn.flush()
    for i in range(n):
        got = results[i].measurement_outcome
        want = raws[i] ^ expected_flip(bells[i], rot)
        if got != want:
            raise Failure(f"measure:multi-pair:{case['route']}", case, f"pair {i} of {n} (Bell state {bells[i]}, basis {case['basis']}, raw outcome {raws[i]}) is post-processed to {got}; Phi+ statistics require {want}")


HISTORY_OPS = ["recv_keep", "recv_keep_post", "recv_keep_seq", "recv_rsp", "recv_measure", "create_keep"]


def run_measure_history(case) -> None:
    """a measure-directly request that is not the first operation on its socket: whatever was requested before on the same
    socket and connection (kept pairs handled by a post routine, sequentially or not; rsp; measure; create), pair i of the
    request under test is post-processed with pair i's Bell state and the call's own expectation flag"""
    from netqasm.sdk.build_epr import EprMeasBasis, basis_to_rotation
    from netqasm.sdk.epr_socket import EPRSocket
    from vlib import net, sim

    rot = basis_to_rotation(EprMeasBasis[case["basis"]])
    bells, raws, expect = case["bells"], case["raws"], case["expect"]
    n = len(bells)
    sock = EPRSocket("bob")
    ctrl, conn = sim.fresh(sim.TraceExecutor, network_stack_cls=net.ScriptedNetworkStack, epr_sockets=[sock], max_qubits=5)
    stack = ctrl.network_stack
    names = "+".join(op[0] for op in case["history"]) or "none"
    earlier = []  # (result handles, raw outcome, Bell state) of earlier measure requests: they must stay right as well
    for kind, hb, m, flush in case["history"]:
        if kind in ("recv_keep_post", "recv_keep_seq"):
            sock.recv_keep(number=m, sequential=kind == "recv_keep_seq", post_routine=lambda c, q, pair: q.measure())
            stack.expect("recv", "K", m, [{"bell_state": (hb + j) % 4} for j in range(m)])
        elif kind == "recv_measure":
            res = sock.recv_measure(number=m)
            stack.expect("recv", "M", m, [{"bell_state": (hb + j) % 4, "measurement_outcome": 1} for j in range(m)])
            earlier.append((res, [(hb + j) % 4 for j in range(m)]))
        else:
            qs = getattr(sock, kind)(number=1)
            stack.expect("create" if kind == "create_keep" else "recv", "K", 1, [{"bell_state": hb}])
            qs[0].measure()
        if flush:
            try:
                conn.flush()
            except Exception as e:
                raise Failure(f"measure:history-flush-raises:{kind}", case, f"flush of the earlier {kind} raised {type(e).__name__}: {str(e).splitlines()[0][:160]}")
    results = sock.recv_measure(number=n, expect_phi_plus=expect) if not (expect and case.get("expect_by_default")) else sock.recv_measure(number=n)
    stack.expect("recv", "M", n, [{"bell_state": b, "measurement_outcome": r} for b, r in zip(bells, raws)])
    try:
        conn.flush()
    except Exception as e:
        raise Failure("measure:after-history:flush-raises", case, f"after {names} on the same socket, flush of recv_measure({n}) raised {type(e).__name__}: {str(e).splitlines()[0][:160]}")
    pending = f" ({len(stack.plan)} of the announced pairs were never waited for: the results are handed back before they exist)" if stack.plan else ""
    for i in range(n):
        want = raws[i] ^ (expected_flip(bells[i], rot) if expect else 0)
        try:
            got = results[i].measurement_outcome
        except Exception as e:
            raise Failure("measure:after-history:outcome-raises", case, f"after {names} on the same socket, measurement_outcome of pair {i} raised {type(e).__name__}: {str(e)[:160]}{pending}")
        if got != want:
            raise Failure("measure:after-history:outcome", case, f"after {names} on the same socket, pair {i} of {n} (Bell state {bells[i]}, basis {case['basis']}, raw outcome {raws[i]}, expect_phi_plus={expect}) is post-processed to {got!r}; required {want}{pending}")
    for res, hbells in earlier:
        for j, hb in enumerate(hbells):
            want = 1 ^ expected_flip(hb, rot)
            got = res[j].measurement_outcome
            if got != want:
                raise Failure("measure:after-history:earlier-request-changed", case, f"pair {j} of an earlier recv_measure (Bell state {hb}, raw outcome 1) reads {got!r} after the later requests; required {want}")


def run_measure_creator(case) -> None:
    """the creating node never post-processes: its outcome handle reads the raw link-layer outcome (the receiver flips)"""
    from netqasm.sdk.build_epr import EprMeasBasis
    from netqasm.sdk.epr_socket import EPRSocket
    from vlib import net, sim

    sock = EPRSocket("bob")
    ctrl, conn = sim.fresh(sim.TraceExecutor, network_stack_cls=net.ScriptedNetworkStack, epr_sockets=[sock], max_qubits=5)
    b = EprMeasBasis[case["basis"]]
    res = sock.create_measure(number=1, basis_local=b, basis_remote=b)
    ctrl.network_stack.expect("create", "M", 1, [{"bell_state": case["bell"], "measurement_outcome": case["raw"]}])
    conn.flush()
    got = res[0].measurement_outcome
    if got != case["raw"]:
        raise Failure("measure:creator-post-processed", case, f"create_measure in basis {case['basis']} with delivered Bell state {case['bell']}: the creator's outcome {case['raw']} is reported as {got}; only the receiver compensates for the Bell state")


def check(case) -> None:
    if case["kind"] == "measure_creator":
        run_measure_creator(case)
        return
    if case["kind"] == "keep":
        run_keep(case)
    elif case["kind"] == "measure_multi":
        run_measure_multi(case)
    elif case["kind"] == "measure_history":
        run_measure_history(case)
    else:
        run_measure(case)


def keep_cases(max_pairs: int, ctx_open) -> List[Dict[str, Any]]:
    cases = []
    for n in range(1, max_pairs + 1):
        for bells in itertools.product(range(4), repeat=n):
            for variant in VARIANTS:
                for hardware in ("generic", "nv"):
                    for others in (0, 1, 2):
                        if n + others > (5 if hardware == "generic" else 4):
                            continue
                        for expect in (True, False):
                            if variant == "create_keep" and not expect:
                                continue
                            cases.append({"kind": "keep", "bells": list(bells), "variant": variant, "hardware": hardware, "others": others, "expect": expect})
                            if variant in ("recv_keep", "recv_keep_seq") and others == 0:
                                # the same scenario with the responses arriving as qlink-interface 1.0 objects
                                cases.append({"kind": "keep", "bells": list(bells), "variant": variant, "hardware": hardware, "others": others, "expect": expect, "wire": "qlink10"})
                                if n <= 2:
                                    cases.append({"kind": "keep", "bells": list(bells), "variant": variant, "hardware": hardware, "others": others, "expect": expect, "wire": "qlink10-int"})
    # sequential mode for a single pair without a post routine (legal: the caller handles the qubit afterwards)
    for hardware in ("generic", "nv", "generic1"):
        for b in range(4):
            for variant in ("recv_keep_seq1", "recv_keep_with_info_seq1"):
                for others in (0, 1):
                    for expect in (True, False):
                        cases.append({"kind": "keep", "bells": [b], "variant": variant, "hardware": hardware, "others": others if hardware != "generic1" else 0, "expect": expect})
    # devices that the request fills completely
    for hardware, combos in (("nv2", [(1, 1)]), ("nv3", [(1, 2), (2, 1), (1, 1)]), ("generic2", [(1, 1), (2, 0)])):
        for n_, oth in combos:
            for bells in itertools.product(range(4), repeat=n_):
                for variant in ("recv_keep", "recv_keep_with_info", "create_keep", "recv_keep_seq"):
                    for expect in (True, False):
                        if variant == "create_keep" and not expect:
                            continue
                        cases.append({"kind": "keep", "bells": list(bells), "variant": variant, "hardware": hardware, "others": oth, "expect": expect})
    # a post routine without sequential mode (the routine runs for every pair once all pairs are there)
    for hardware in ("generic", "nv"):
        for bells in ([1], [2, 3], [3, 0, 1]):
            for expect in (True, False):
                cases.append({"kind": "keep", "bells": list(bells), "variant": "recv_keep_post", "hardware": hardware, "others": 0, "expect": expect})
    # post routines that use classical temporaries of their own (a count kept on the node, a conditional on the outcome)
    for hardware in ("generic", "nv"):
        for variant in ("recv_keep_seq", "recv_keep_post"):
            for post_kind in ("tally", "if"):
                for bells in ([2], [0, 1], [1, 2], [3, 3], [2, 0, 1], [0, 3, 2]):
                    cases.append({"kind": "keep", "bells": list(bells), "variant": variant, "hardware": hardware, "others": 0, "expect": True, "post_kind": post_kind})
    # NV through the compiler argument alone; the expectation left at its documented default
    for given in ("generic", "default", "nv"):
        for bells in ([1], [2], [3, 1], [0, 2], [1, 2, 3]):
            for variant in ("recv_keep", "recv_keep_with_info", "recv_keep_seq", "create_keep"):
                cases.append({"kind": "keep", "bells": list(bells), "variant": variant, "hardware": "nv", "compiler": "nv", "hardware_given": given, "others": 0, "expect": True})
    for hardware in ("generic", "nv"):
        for variant in VARIANTS:
            if variant == "create_keep":
                continue
            for bells in ([1], [2], [3], [2, 1]):
                cases.append({"kind": "keep", "bells": list(bells), "variant": variant, "hardware": hardware, "others": 0, "expect": True, "expect_by_default": True})
    # single-communication-qubit devices that are not NV (one pair)
    for hardware in ("generic1", "custom1"):
        for b in range(4):
            for variant in ("recv_keep", "recv_keep_with_info", "create_keep"):
                for expect in (True, False):
                    if variant == "create_keep" and not expect:
                        continue
                    if hardware == "generic1" and variant == "create_keep":
                        pass
                    cases.append({"kind": "keep", "bells": [b], "variant": variant, "hardware": hardware, "others": 0, "expect": expect})
    # an earlier, already consumed request (or a live register) on the same connection shifts the register allocation
    for prelude in (["recv_rsp", 1, False], ["recv_rsp", 2, True], ["recv_keep", 3, False], ["create_keep", 1, True], ["new_register", 0, False]):
        for bells in ([1], [2, 3], [3, 1], [1, 2, 3]):
            for variant in ("recv_keep", "recv_keep_seq", "recv_rsp"):
                cases.append({"kind": "keep", "bells": list(bells), "variant": variant, "hardware": "nv", "others": 0, "expect": True, "prelude": prelude})
            cases.append({"kind": "keep", "bells": [bells[0]], "variant": "recv_keep", "hardware": "generic", "others": 0, "expect": True, "prelude": prelude})
    # hardware described by an instance of a subclass of the documented configuration classes
    for hardware in ("nv-sub", "generic-sub"):
        for n in range(1, min(max_pairs, 3) + 1):
            for bells in itertools.product(range(4), repeat=n):
                if n == 3 and (bells[0] + 2 * bells[1] + 3 * bells[2]) % 4 != 1:
                    continue  # (a quarter of the 3-pair tuples)
                for variant in VARIANTS:
                    for others in (0, 1):
                        for expect in (True, False):
                            if (variant == "create_keep" and not expect) or (others and n == 3):
                                continue
                            cases.append({"kind": "keep", "bells": list(bells), "variant": variant, "hardware": hardware, "others": others, "expect": expect})
    # the socket's previous request was a measure request (keep-type requests after a request with a post routine are left out: the
    # handles that request returned stay registered as live qubits, which puts every later keep request into the region of the
    # open findings about other live qubits; measure requests after a post routine are in measure_cases())
    for prelude in (["recv_measure", 2, True], ["recv_measure", 3, False]):
        for hardware in ("generic", "nv"):
            for bells in ([1], [2], [3], [2, 3], [3, 1]):
                for variant in ("recv_rsp", "recv_rsp_with_info", "recv_keep", "recv_keep_with_info"):
                    for expect in (True, False):
                        cases.append({"kind": "keep", "bells": list(bells), "variant": variant, "hardware": hardware, "others": 0, "expect": expect, "prelude": prelude})
    return cases


def measure_cases() -> List[Dict[str, Any]]:
    out = []
    for route in ("explicit", "recv_measure"):
        for basis in ("X", "Y", "Z", "MX", "MY", "MZ"):
            for bell in range(4):
                for expect in (True, False):
                    out.append({"kind": "measure", "route": route, "basis": basis, "bell": bell, "expect": expect})
                    if route == "explicit" or basis in ("Z", "MZ"):
                        # the same with the response delivered as a qlink-interface 1.0 object (Bell state as that package's enum / as a plain integer)
                        out.append({"kind": "measure", "route": route, "basis": basis, "bell": bell, "expect": expect, "wire": "qlink10"})
                        out.append({"kind": "measure", "route": route, "basis": basis, "bell": bell, "expect": expect, "wire": "qlink10-int"})
            for bells in itertools.product(range(4), repeat=2):
                out.append({"kind": "measure_multi", "route": route, "basis": basis, "bells": list(bells), "raws": [bells[0] % 2, (bells[1] // 2) % 2], "expect": True})
            for bells in ((1, 2, 3), (3, 0, 1), (2, 2, 0, 1)):
                out.append({"kind": "measure_multi", "route": route, "basis": basis, "bells": list(bells), "raws": [0] * len(bells), "expect": True})
    for basis in ("X", "Y", "Z", "MX", "MY", "MZ"):
        for bell in range(4):
            for raw in (0, 1):
                out.append({"kind": "measure_creator", "basis": basis, "bell": bell, "raw": raw})
    # recv_measure as a later operation on a socket: one earlier operation of every kind (flushed separately / same subroutine)
    for k, op in enumerate(HISTORY_OPS):
        for flush in (True, False):
            for m in (1, 2):
                if m == 2 and op not in ("recv_keep_seq", "recv_measure"):
                    continue
                for j, (bells, raws) in enumerate((([1, 2], [0, 1]), ([3, 0], [1, 1]), ([2], [0]), ([1, 3, 2], [1, 0, 0]))):
                    for expect in (True, False):
                        out.append({"kind": "measure_history", "route": "recv_measure", "basis": "Z" if (j + k) % 2 == 0 else "MZ", "history": [[op, (k + j) % 4, m, flush]],
                                    "bells": bells, "raws": raws, "expect": expect})
    return out


KF_CORR0 = "keep-correction-on-virtual-0"
KF_NV_ASSERT = "nv-keep-with-other-live-qubits-asserts"


def excluded(case, open_keys) -> str:
    """input-level predicates of the open known findings (never outputs or error texts)"""
    if case["kind"] == "measure_creator":
        return ""
    if case["kind"] in ("measure", "measure_multi", "measure_history"):
        if case["route"] == "recv_measure" and case["basis"] not in ("Z", "MZ") and case["expect"] and KF_BASIS in open_keys:
            return KF_BASIS
        return ""
    n = len(case["bells"])
    v = case["variant"]
    recv = v != "create_keep"
    if case["hardware"].startswith("nv"):
        if v in ("recv_rsp", "recv_rsp_with_info") and n > 1 and KF_RSP_NV in open_keys:
            return KF_RSP_NV
        if case["others"] > 0 and n > 1 and v != "recv_keep_seq" and KF_NV_ASSERT in open_keys:
            return KF_NV_ASSERT
    else:
        if recv and case["expect"] and (case["others"] > 0 or (n > 1 and v != "recv_keep_seq")) and KF_CORR0 in open_keys:
            return KF_CORR0
    return ""


def shard(ctx: Ctx) -> None:
    stt = ctx.stats
    max_pairs = 2 if ctx.tier == "quick" else 4
    allc = keep_cases(max_pairs, ctx.open_findings) + measure_cases()
    if ctx.tier == "quick":
        # all 3-pair tuples for the plain recv_keep variant only, the rest sampled by Hypothesis below
        allc += [c for c in keep_cases(3, ctx.open_findings) if len(c["bells"]) == 3 and c["variant"] in ("recv_keep", "recv_keep_seq") and c["others"] in (0, 1)]
    mine = [c for i, c in enumerate(allc) if i % ctx.nshards == ctx.shard]
    n_enum = 0
    for case in mine:
        ex = excluded(case, ctx.open_findings)
        if ex:
            stt.excluded[ex] += 1
            continue
        try:
            check(case)
        except Rejected as r:
            stt.rejected[str(r)] += 1
            stt.evaluations += 1
            continue
        except Failure as f:
            ctx.fail(f)
        n_enum += 1
        nt = any(b != 0 for b in case["bells"]) if "bells" in case else case["bell"] != 0
        labels = [case["kind"]] + ([case["variant"], case["hardware"], f"pairs:{len(case['bells'])}", f"others:{case['others']}", f"expect:{case['expect']}"] + (["prelude:" + case["prelude"][0]] if case.get("prelude") else []) + (["nv-by-compiler:" + case["hardware_given"]] if case.get("compiler") else []) + (["expectation-left-at-default"] if case.get("expect_by_default") else []) if case["kind"] == "keep" else [case.get("route", "creator"), case["basis"]])
        if case["kind"] == "measure_history":
            labels += ["history:" + op[0] + (":own-subroutine" if op[3] else ":same-subroutine") for op in case["history"]]
        stt.case(case, nt, labels, sample=case)
    stt.exhaustive_domains[f"keep scenarios up to {max_pairs} pairs x variants x hardware x others x expectation; measure-directly 4 Bell x 6 bases x 2 routes x expectation"] = n_enum
    if True:
        # randomly combined scenarios beyond the enumerated grid (longer requests, an earlier request on the same connection)

        def body(t):
            bells, variant, hardware, others, expect, prelude = t
            if len(bells) + others > (5 if hardware.startswith("generic") else 4):
                others = 0
            case = {"kind": "keep", "bells": list(bells), "variant": variant, "hardware": hardware, "others": others, "expect": expect or variant == "create_keep"}
            if prelude is not None and others == 0:
                case["prelude"] = list(prelude)
            exk = excluded(case, ctx.open_findings)
            if exk:
                stt.excluded[exk] += 1
                return
            try:
                check(case)
            except Rejected as r:
                stt.rejected[str(r)] += 1
                return
            stt.case(case, any(b != 0 for b in bells), ["keep:hyp", variant, hardware, f"pairs:{len(bells)}"] + (["prelude:" + case["prelude"][0]] if "prelude" in case else []))

        st_prelude = st.none() | st.tuples(st.sampled_from(["recv_rsp", "recv_keep", "create_keep", "new_register", "recv_measure"]), st.integers(0, 3), st.booleans())
        ctx.search(
            st.tuples(st.lists(st.integers(0, 3), min_size=1, max_size=4), st.sampled_from(VARIANTS), st.sampled_from(["generic", "nv", "nv-sub", "generic-sub"]), st.integers(0, 2), st.booleans(), st_prelude),
            body,
            150 if ctx.tier == "quick" else 4000,
            name="c10-hyp",
        )

        # measure-directly requests at the end of a random history of operations on the same socket and connection
        def body_hist(t):
            (before, post_op, after), pairs, basis, expect, by_default = t
            history = list(before) + ([post_op] if post_op is not None else []) + list(after)
            case = {"kind": "measure_history", "route": "recv_measure", "basis": basis, "history": [list(op) for op in history],
                    "bells": [b for b, _ in pairs], "raws": [r for _, r in pairs], "expect": expect}
            if expect and by_default:
                case["expect_by_default"] = True
            exk = excluded(case, ctx.open_findings)
            if exk:
                stt.excluded[exk] += 1
                return
            check(case)
            with_post = any(op[0] in ("recv_keep_post", "recv_keep_seq") for op in history)
            stt.case(case, any(b != 0 for b, _ in pairs), ["measure:hyp-history", f"history-length:{len(history)}", f"pairs:{len(pairs)}", f"expect:{expect}"]
                     + (["history-has-post-routine"] if with_post else []) + ["history:" + op[0] for op in history])

        # shape of a history: operations without a post routine, then at most one keep request whose pairs a post routine consumes
        # (one pair when not sequential), then only measure requests.  (Keep-type requests after a post routine, and two pairs
        # corrected at once on the default hardware, fall into the open findings on corrections with other live qubits.)
        st_plain = st.sampled_from(["recv_keep", "recv_rsp", "recv_measure", "create_keep"]).flatmap(
            lambda k: st.tuples(st.just(k), st.integers(0, 3), st.integers(1, 2) if k == "recv_measure" else st.just(1), st.booleans()))
        st_post = st.none() | st.tuples(st.just("recv_keep_post"), st.integers(0, 3), st.just(1), st.booleans()) | st.tuples(st.just("recv_keep_seq"), st.integers(0, 3), st.integers(1, 2), st.booleans())
        st_after = st.lists(st.tuples(st.just("recv_measure"), st.integers(0, 3), st.integers(1, 2), st.booleans()), max_size=1)
        ctx.search(
            st.tuples(st.tuples(st.lists(st_plain, min_size=0, max_size=2), st_post, st_after), st.lists(st.tuples(st.integers(0, 3), st.integers(0, 1)), min_size=1, max_size=3),
                      st.sampled_from(["Z", "MZ"]), st.booleans(), st.booleans()),
            body_hist,
            60 if ctx.tier == "quick" else 1500,
            name="c10-hyp-history",
            salt=1,
        )


def replay(case):
    try:
        check(case)
    except Rejected:
        return None
    except Failure as f:
        return f
    return None
