"""C12 — the controller matches entanglement responses to requests under any interleaving.

The harness owns the schedule: between any two instructions and inside every wait a choice sequence
decides which in-flight link-layer responses are delivered.  A FIFO reference model says which response
belongs to which request/pair.
"""
from __future__ import annotations

import itertools
from typing import Any, Dict, List, Optional, Tuple

from hypothesis import strategies as st

from vlib.runner import Ctx, Failure

LEVEL = "exploration"
RULE = (
    "scenario = 1..3 subroutines with up to three create_epr/recv_epr requests (keep and measure, 1..3 pairs, same or "
    "different sockets / remote nodes, responses in netqasm-native or qlink-interface 1.0 format incl. instances of classes derived from the qlink response classes, or 2..3 subroutines of one application in progress at once (switching while blocked in wait_all), optional reuse of one virtual id across the pairs of a request with qfree between, id arrays of later subroutines at the address a completed request used) "
    "followed by wait_all / wait_any / wait_single and classical filler; schedule = choice sequence delivering 0..k in-flight "
    "responses before every instruction and >=1 inside a blocked wait; per (remote, purpose, role) responses arrive in "
    "request and pair order, receiver-side responses may precede recv_epr.  Thorough additionally enumerates all delivery "
    "placements for small scenarios.  Non-trivial = >=1 response delivered before its instruction ran or >=2 requests "
    "outstanding at once; distinct by (scenario, schedule)"
)
ASSUMPTIONS = [
    "deferral of responses that cannot be handled yet is supplied by the harness (documented subclassing point "
    "_wait_to_handle_epr_responses); deferred responses are retried after every instruction",
    "each request is awaited inside the subroutine that issued it (as every SDK-emitted subroutine does)",
    "the network stack maps (remote node, socket id) to purpose id = socket id + k for a drawn k (the mapping is the stack's choice)",
    "a wait that is still blocked when no response is in flight is reported as a lost response",
]
SHARDS = {"quick": 4, "thorough": 16}
OK = 10


# the format in which a response reaches the controller (one entry per delivered response, cyclic; empty = all native):
# 0 netqasm-native namedtuple; 1 qlink-interface 1.0 dataclass (Bell state as plain index); 2 the same with the Bell state as
# the qlink enum; 3 an instance of a dataclass derived from the qlink response class (one more field); 4 an instance of a plain
# subclass of it (Bell state as enum)
WIRE_NAMES = {0: "native", 1: "qlink-1.0", 2: "qlink-1.0", 3: "qlink-1.0-subclass", 4: "qlink-1.0-subclass"}
# the same Bell state in the numbering of qlink-interface and of netqasm (matched by name)
BELL_QLINK_TO_NETQASM = {0: 0, 1: 3, 2: 1, 3: 2}  # PHI_PLUS, PHI_MINUS, PSI_PLUS, PSI_MINUS


def st_wire():
    return st.one_of(st.just([]), st.lists(st.sampled_from([0, 1, 2, 3, 4]), min_size=1, max_size=6))


_QL: Dict[str, Any] = {}


def qlink_classes() -> Dict[str, Any]:
    if not _QL:
        from dataclasses import dataclass

        import qlink_interface as ql

        @dataclass
        class StampedKeep(ql.ResCreateAndKeep):
            produced_at: float = 0.0

        @dataclass
        class StampedMeasure(ql.ResMeasureDirectly):
            produced_at: float = 0.0

        class TaggedKeep(ql.ResCreateAndKeep):
            pass

        class TaggedMeasure(ql.ResMeasureDirectly):
            pass

        _QL.update({"ql": ql, ("K", 1): ql.ResCreateAndKeep, ("K", 2): ql.ResCreateAndKeep, ("K", 3): StampedKeep, ("K", 4): TaggedKeep,
                    ("M", 1): ql.ResMeasureDirectly, ("M", 2): ql.ResMeasureDirectly, ("M", 3): StampedMeasure, ("M", 4): TaggedMeasure})
    return _QL


@st.composite
def st_concurrent(draw):
    """family: two or three subroutines of ONE application are in progress at the same time; the controller switches between
    them while they are blocked in a wait (registers are per application, hence shared by them).  Every request is awaited
    (wait_all, wait_any or wait_single) inside its own subroutine; requests of different subroutines use different (remote, socket, role) queues"""
    nsub = draw(st.integers(2, 3))
    keys = draw(st.permutations([(r_, s_, ro) for r_ in (1, 2) for s_ in (0, 1) for ro in ("recv", "create")]))
    reqs = []
    subs = []
    nv = 0
    for s in range(nsub):
        mine = []
        for _ in range(draw(st.sampled_from([1, 1, 2]))):
            if len(reqs) >= 3:  # the property quantifies over up to three outstanding requests
                break
            tp = draw(st.sampled_from(["K", "M", "M"]))
            n = draw(st.integers(1, 3))
            if tp == "K" and nv + n > 9:
                tp = "M"
            ids = list(range(nv, nv + n)) if tp == "K" else []
            nv += len(ids)
            remote, sock, role = keys[s] if draw(st.booleans()) or not mine else keys[nsub + s]
            mine.append(len(reqs))
            reqs.append({"role": role, "tp": tp, "n": n, "remote": remote, "sock": sock, "ids": ids, "reuse": False, "sub": s, "wait": draw(st.sampled_from(["all", "all", "single", "any"])),
                         "spare": draw(st.sampled_from([0, 0, OK])) if role == "create" else 0, "c0": None})
        ops: List[Any] = [["filler"]] * draw(st.integers(0, 2))
        for i in mine:
            ops += [["req", i]] + [["filler"]] * draw(st.integers(0, 1))
        for i in draw(st.permutations(mine)):
            if draw(st.integers(0, 3)) == 0:
                ops += [["waitpair", i, k] for k in range(reqs[i]["n"])]
            else:
                ops.append(["wait", i])
            ops += [["filler"]] * draw(st.integers(0, 1))
        ops += [["ret", i] for i in mine]
        subs.append(ops)
    return {"reqs": reqs, "subs": subs, "schedule": draw(st.lists(st.integers(0, 7), min_size=0, max_size=60)), "purpose_offset": draw(st.sampled_from([0, 1, 7])),
            "wire": draw(st_wire()), "concurrent": True, "family": "concurrent-subroutines"}


@st.composite
def st_blocked_head(draw):
    """family: the second pair of a keep request that reuses one virtual qubit has to wait (the qubit is still allocated)
    while a measure request of the same queue stands behind it; a request of another queue is issued later, its response
    possibly already waiting"""
    role = draw(st.sampled_from(["recv", "create"]))
    remote, sock = draw(st.sampled_from([1, 2])), draw(st.sampled_from([0, 1]))
    other = draw(st.sampled_from([(r_, s_) for r_ in (1, 2) for s_ in (0, 1) if (r_, s_) != (remote, sock)] + [(remote, sock)] * (1 if role == "create" else 0)))
    xtp = draw(st.sampled_from(["K", "M"]))
    reqs = [
        {"role": role, "tp": "K", "n": 2, "remote": remote, "sock": sock, "ids": [0, 0], "reuse": True, "sub": 0, "wait": "all", "spare": 0},
        {"role": "recv", "tp": xtp, "n": 1, "remote": other[0], "sock": other[1], "ids": [1] if xtp == "K" else [], "reuse": False, "sub": 0, "wait": draw(st.sampled_from(["all", "single"])), "spare": 0},
        {"role": role, "tp": "M", "n": draw(st.integers(1, 2)), "remote": remote, "sock": sock, "ids": [], "reuse": False, "sub": 0, "wait": "all", "spare": 0},
    ]
    ops: List[Any] = [["req", 0]] + [["filler"]] * draw(st.integers(0, 2)) + [["req", 2]] + [["filler"]] * draw(st.integers(2, 6)) + [["req", 1]] + [["filler"]] * draw(st.integers(0, 3))
    ops += [["waitpair", 0, 0], ["free", 0, 0], ["waitpair", 0, 1], ["wait", 2], ["wait", 1], ["ret", 0], ["ret", 1], ["ret", 2]]
    return {"reqs": reqs, "subs": [ops], "schedule": draw(st.lists(st.integers(0, 5), min_size=4, max_size=40)), "purpose_offset": draw(st.sampled_from([0, 1])), "family": "blocked-head", "wire": draw(st_wire())}


@st.composite
def st_reissue(draw):
    """family: a second keep request names a virtual qubit that is still allocated when the request instruction runs; the
    program frees it afterwards, so the response only has to wait at arrival time"""
    role0, role1 = draw(st.sampled_from(["recv", "create"])), draw(st.sampled_from(["recv", "create"]))
    remote, sock = draw(st.sampled_from([1, 2])), draw(st.sampled_from([0, 1]))
    same_queue = draw(st.booleans())
    r1 = (remote, sock) if same_queue else draw(st.sampled_from([(r_, s_) for r_ in (1, 2) for s_ in (0, 1) if (r_, s_) != (remote, sock)]))
    reqs = [
        {"role": role0, "tp": "K", "n": 1, "remote": remote, "sock": sock, "ids": [0], "reuse": False, "sub": 0, "wait": "all", "spare": 0},
        {"role": role1, "tp": "K", "n": 1, "remote": r1[0], "sock": r1[1], "ids": [0], "reuse": False, "sub": 0, "wait": draw(st.sampled_from(["all", "single"])), "spare": 0},
    ]
    fill = lambda a, b: [["filler"]] * draw(st.integers(a, b))  # noqa: E731
    ops: List[Any] = [["req", 0]] + fill(0, 2) + [["wait", 0]] + fill(0, 1) + [["req", 1]] + fill(0, 4) + [["free", 0, 0]] + fill(0, 2) + [["wait", 1], ["ret", 0], ["ret", 1]]
    return {"reqs": reqs, "subs": [ops], "schedule": draw(st.lists(st.integers(0, 5), min_size=0, max_size=30)), "purpose_offset": draw(st.sampled_from([0, 1])), "family": "reissue-on-allocated-qubit", "wire": draw(st_wire())}


@st.composite
def st_flood(draw):
    """family: three receive requests of three pairs each whose nine responses can all be waiting before the first request runs"""
    reqs = []
    nv = 0
    for i in range(3):
        tp = draw(st.sampled_from(["K", "M", "M"]))
        ids = list(range(nv, nv + 3)) if tp == "K" else []
        nv += 3 if tp == "K" else 0
        reqs.append({"role": "recv", "tp": tp, "n": 3, "remote": draw(st.sampled_from([1, 2])), "sock": draw(st.sampled_from([0, 1])), "ids": ids, "reuse": False, "sub": 0,
                     "wait": draw(st.sampled_from(["all", "single"])), "spare": 0, "c0": None})
    ops: List[Any] = [["filler"]] * draw(st.integers(5, 8)) + [["req", 0], ["req", 1], ["req", 2], ["wait", 0], ["wait", 1], ["wait", 2], ["ret", 0], ["ret", 1], ["ret", 2]]
    return {"reqs": reqs, "subs": [ops], "schedule": draw(st.lists(st.sampled_from([2, 2, 2, 1, 0]), min_size=10, max_size=40)), "purpose_offset": draw(st.sampled_from([0, 1])), "family": "flood", "wire": draw(st_wire())}


@st.composite
def st_scenario(draw):
    fam = draw(st.integers(0, 11))
    if fam >= 10:
        return draw(st_concurrent())
    if fam == 3:
        return draw(st_flood())
    if fam <= 1:
        return draw(st_blocked_head())
    if fam == 2:
        return draw(st_reissue())
    nsub = draw(st.integers(1, 3))
    nreq = draw(st.integers(1, 3))
    reqs = []
    next_virt = 0
    for r in range(nreq):
        role = draw(st.sampled_from(["create", "recv"]))
        tp = draw(st.sampled_from(["K", "K", "M"]))
        n = draw(st.integers(1, 3))
        remote = draw(st.sampled_from([1, 1, 2]))
        sock = draw(st.sampled_from([0, 0, 1]))
        reuse = tp == "K" and n > 1 and draw(st.integers(0, 3)) == 0
        if tp == "K":
            if reuse:
                ids = [next_virt] * n
                next_virt += 1
            else:
                ids = list(range(next_virt, next_virt + n))
                next_virt += n
        else:
            ids = []
        reqs.append({"role": role, "tp": tp, "n": n, "remote": remote, "sock": sock, "ids": ids, "reuse": reuse, "sub": draw(st.integers(0, nsub - 1)),
                     "wait": draw(st.sampled_from(["all", "all", "single", "any"])),
                     # a create request states its number of pairs itself: its result array may be longer than needed
                     "spare": draw(st.sampled_from([0, 0, 0, OK, 2 * OK])) if role == "create" else 0,
                     "c0": draw(st.sampled_from([None, None, 1, 2, 5])) if tp == "M" else None})
    # a keep request of a later subroutine may name its qubits through the array address an earlier, completed request used
    # (declared again, with its own contents)
    # (one user of an address per subroutine: the controller reads the id array when a response arrives, so two outstanding
    # requests cannot share one)
    taken = set()
    for i, r in enumerate(reqs):
        earlier = [j for j in range(i) if reqs[j]["tp"] == "K" and reqs[j]["sub"] < r["sub"] and "ids_from" not in reqs[j] and (r["sub"], j) not in taken]
        if r["tp"] == "K" and earlier and draw(st.booleans()):
            r["ids_from"] = draw(st.sampled_from(earlier))
            taken.add((r["sub"], r["ids_from"]))
    # at most 9 virtual qubits (unit module of 12)
    subs = []
    for s in range(nsub):
        mine = [i for i, r in enumerate(reqs) if r["sub"] == s]
        ops: List[Any] = []
        order = draw(st.permutations(mine)) if mine else []
        for i in order:
            ops.append(["req", i])
            for _ in range(draw(st.integers(0, 2))):
                ops.append(["filler"])
        worder = draw(st.permutations(mine)) if mine else []
        if any(reqs[i]["reuse"] for i in mine):
            # a request that reuses one virtual id needs its pairs consumed in order; waiting for a later request of the
            # same key first would be a deadlock of the *program*: keep the wait order equal to the issue order
            worder = list(order)
        for i in worder:
            r = reqs[i]
            if r["reuse"]:
                for k in range(r["n"]):
                    ops.append(["waitpair", i, k])
                    if k < r["n"] - 1:
                        ops.append(["free", i, k])
            else:
                ops.append(["wait", i])
            for _ in range(draw(st.integers(0, 1))):
                ops.append(["filler"])
        for i in mine:
            ops.append(["ret", i])
        if not ops:
            ops.append(["filler"])
        subs.append(ops)
    schedule = draw(st.lists(st.integers(0, 5), min_size=0, max_size=60))
    scn = {"reqs": reqs, "subs": subs, "schedule": schedule, "purpose_offset": draw(st.sampled_from([0, 1, 1, 7])), "big_fields": draw(st.integers(0, 3)) == 0, "wire": draw(st_wire())}
    if draw(st.integers(0, 2)) == 0:
        # another controller in the same process holds responses it cannot use yet (they arrived before its receive
        # instruction); they are its own business
        scn["bystander"] = draw(st.lists(st.tuples(st.sampled_from([1, 1, 2]), st.sampled_from([0, 0, 1]), st.sampled_from(["K", "M"]), st.sampled_from(["recv", "recv", "create"])).map(list), min_size=1, max_size=3))
    return scn


def addr(i, what):
    return 3 * i + {"ids": 0, "args": 1, "res": 2}[what]


def build_text(scn, s) -> str:
    lines = ["# NETQASM 0.0", "# APPID 0"]
    for op in scn["subs"][s]:
        k = op[0]
        if k == "filler":
            lines += ["set R10 1", "add R10 R10 R10"]
        elif k == "req":
            i = op[1]
            r = scn["reqs"][i]
            a_ids = addr(r.get("ids_from", i), "ids")
            if r["tp"] == "K":
                lines.append(f"array {r['n']} @{a_ids}")
                for j, v in enumerate(r["ids"]):
                    lines.append(f"store {v} @{a_ids}[{j}]")
            lines.append(f"array {OK * r['n'] + r.get('spare', 0)} @{addr(i, 'res')}")
            qa = f"{a_ids}" if r["tp"] == "K" else "C0"
            if r["tp"] != "K" and r.get("c0") is not None:
                # the qubit-array operand of a measure request is ignored; here it happens to name an existing (short) array
                lines.append(f"array {r['c0']} @{addr(i, 'ids')}")
                lines.append(f"set C0 {addr(i, 'ids')}")
            if r["role"] == "create":
                lines.append(f"array 20 @{addr(i, 'args')}")
                lines.append(f"store {0 if r['tp'] == 'K' else 1} @{addr(i, 'args')}[0]")
                lines.append(f"store {r['n']} @{addr(i, 'args')}[1]")
                lines.append(f"create_epr({r['remote']},{r['sock']}) {qa} {addr(i, 'args')} {addr(i, 'res')}")
            else:
                lines.append(f"recv_epr({r['remote']},{r['sock']}) {qa} {addr(i, 'res')}")
        elif k == "wait":
            i = op[1]
            r = scn["reqs"][i]
            a = addr(i, "res")
            if r["wait"] == "all":
                lines.append(f"wait_all @{a}[0:{OK * r['n']}]")
            elif r["wait"] == "any":
                lines.append(f"wait_any @{a}[0:{OK * r['n']}]")
                lines.append(f"wait_all @{a}[0:{OK * r['n']}]")
            else:
                for j in range(r["n"]):
                    lines.append(f"wait_single @{a}[{OK * j + OK - 1}]")
        elif k == "waitpair":
            i, j = op[1], op[2]
            a = addr(i, "res")
            lines.append(f"wait_all @{a}[{OK * j}:{OK * j + OK}]")
        elif k == "free":
            i, j = op[1], op[2]
            lines.append(f"set Q0 {scn['reqs'][i]['ids'][j]}")
            lines.append("qfree Q0")
        elif k == "ret":
            lines.append(f"ret_arr @{addr(op[1], 'res')}")
    return "\n".join(lines) + "\n"


class Scheduler:
    def __init__(self, scn, ex, stack, choices):
        self.scn = scn
        self.ex = ex
        self.stack = stack
        self.choices = list(choices)
        self.ci = 0
        # in-flight responses per key (remote, sock, role): FIFO of (req index, pair index)
        self.queues: Dict[Tuple[int, int, str], List[Tuple[int, int]]] = {}
        for i, r in enumerate(scn["reqs"]):
            pass
        self.seq = 0
        self.delivered: List[Dict[str, Any]] = []
        self.executed_reqs: set = set()
        self.early = 0
        self.max_outstanding = 0
        self.issue_order: List[int] = []  # requests in program order (per key FIFO is derived from it)
        for s, ops in enumerate(scn["subs"]):
            for op in ops:
                if op[0] == "req":
                    self.issue_order.append(op[1])
        for i in self.issue_order:
            r = scn["reqs"][i]
            key = (r["remote"], r["sock"], r["role"])
            self.queues.setdefault(key, [])
            for k in range(r["n"]):
                self.queues[key].append((i, k))
        self.current_sub = 0

    def choice(self, n: int) -> int:
        c = self.choices[self.ci] if self.ci < len(self.choices) else 0
        self.ci += 1
        return c % n if n > 0 else 0

    def deliverable_keys(self):
        keys = []
        for key, q in sorted(self.queues.items()):
            if not q:
                continue
            i, k = q[0]
            r = self.scn["reqs"][i]
            if r["role"] == "create" and i not in self.executed_reqs:
                continue  # the stack cannot answer a create request it has not seen
            if r["sub"] > self.current_sub:
                continue  # a later subroutine's traffic (its arrays do not exist yet): keep scenarios sequential
            keys.append(key)
        return keys

    def deliver_one(self, key) -> None:
        from netqasm.qlink_compat import LinkLayerOKTypeK, LinkLayerOKTypeM, ReturnType

        i, k = self.queues[key].pop(0)
        r = self.scn["reqs"][i]
        self.seq += 1
        direction = 0 if r["role"] == "create" else 1
        # (timestamps and counters of a link layer need not be small: a quarter of the scenarios carry values beyond 32 bits)
        big = 3_000_000_000 if self.scn.get("big_fields") else 0
        rec = {"req": i, "pair": k, "seq": 1000 + self.seq + big, "create_id": 500 + self.seq, "goodness": 70 + self.seq + big, "bell": self.seq % 4, "outcome": self.seq % 2,
               "early": i not in self.executed_reqs}
        if rec["early"]:
            self.early += 1
        if r["tp"] == "K":
            phys = self.ex._get_unused_physical_qubit()
            rec["phys"] = phys
            resp = LinkLayerOKTypeK(type=ReturnType.OK_K, create_id=rec["create_id"], logical_qubit_id=phys, directionality_flag=direction,
                                    sequence_number=rec["seq"], purpose_id=r["sock"] + self.stack.purpose_offset, remote_node_id=r["remote"], goodness=rec["goodness"], goodness_time=3 + 2 * big, bell_state=rec["bell"])
        else:
            resp = LinkLayerOKTypeM(type=ReturnType.OK_M, create_id=rec["create_id"], measurement_outcome=rec["outcome"], measurement_basis=0, directionality_flag=direction,
                                    sequence_number=rec["seq"], purpose_id=r["sock"] + self.stack.purpose_offset, remote_node_id=r["remote"], goodness=rec["goodness"], bell_state=rec["bell"])
        rec["fields"] = [x.value if hasattr(x, "value") else x for x in resp]
        wire_seq = self.scn.get("wire") or [0]
        wire = wire_seq[(self.seq - 1) % len(wire_seq)]
        rec["wire"] = wire
        if wire:
            # the same response in the format of qlink-interface 1.0 (possibly an instance of a class derived from the
            # documented response class); what has to end up in the result array is written down here field by field
            qc = qlink_classes()
            ql = qc["ql"]
            pid = r["sock"] + self.stack.purpose_offset
            enum_bell = wire in (2, 4)
            bell_sent = ql.BellState(rec["bell"]) if enum_bell else rec["bell"]
            bell_stored = BELL_QLINK_TO_NETQASM[rec["bell"]] if enum_bell else rec["bell"]
            extra = {"produced_at": 0.5 * self.seq} if wire == 3 else {}
            if r["tp"] == "K":
                resp = qc[("K", wire)](create_id=rec["create_id"], directionality_flag=direction, sequence_number=rec["seq"], purpose_id=pid, remote_node_id=r["remote"],
                                       goodness=rec["goodness"], bell_state=bell_sent, logical_qubit_id=rec["phys"], time_of_goodness=3 + 2 * big, **extra)
                rec["fields"] = [0, rec["create_id"], rec["phys"], direction, rec["seq"], pid, r["remote"], rec["goodness"], 3 + 2 * big, bell_stored]
            else:
                basis = self.seq % 5
                resp = qc[("M", wire)](create_id=rec["create_id"], directionality_flag=direction, sequence_number=rec["seq"], purpose_id=pid, remote_node_id=r["remote"],
                                       goodness=rec["goodness"], bell_state=bell_sent, measurement_outcome=rec["outcome"], measurement_basis=ql.MeasurementBasis(basis), **extra)
                rec["fields"] = [1, rec["create_id"], rec["outcome"], basis, direction, rec["seq"], pid, r["remote"], rec["goodness"], bell_stored]
            if wire == 4:
                resp.tag = f"link-layer-{self.seq}"
        self.delivered.append(rec)
        self.ex._handle_epr_response(resp)

    def outstanding(self) -> int:
        return len(self.ex._epr_create_requests and [d for v in self.ex._epr_create_requests.values() for d in v]) + len([d for v in self.ex._epr_recv_requests.values() for d in v])

    def on_instr(self):
        self.max_outstanding = max(self.max_outstanding, self.outstanding())
        n = self.choice(4)
        n = 0 if n == 3 else n  # 0,1,2 deliveries (0 twice as likely)
        for _ in range(n):
            keys = self.deliverable_keys()
            if not keys:
                return
            self.deliver_one(keys[self.choice(len(keys))])

    def on_wait(self):
        from vlib import sim

        self.max_outstanding = max(self.max_outstanding, self.outstanding())
        keys = self.deliverable_keys()
        if not keys:
            raise sim.WouldBlock("wait blocked with no response in flight")
        self.deliver_one(keys[self.choice(len(keys))])


def run(scn) -> Dict[str, Any]:
    from netqasm.lang.parsing.text import parse_text_subroutine
    from vlib import net, sim

    case = scn
    sim.reset_globals()

    alloc_log: List[Tuple[int, int]] = []
    wait_log: List[Any] = []
    freed: set = set()

    class Ex(sim.TraceExecutor):
        def _allocate_physical_qubit(self, subroutine_id, virtual_address, physical_address=None):
            if physical_address is not None:
                if self._has_virtual_address(self._get_app_id(subroutine_id), virtual_address):
                    raise Failure("overwrites-allocated-qubit", case, f"a keep response was applied to virtual qubit {virtual_address}, which is still allocated")
                alloc_log.append((virtual_address, physical_address))
            return super()._allocate_physical_qubit(subroutine_id, virtual_address, physical_address)

        def _execute_command(self, subroutine_id, command):
            started_with = None
            if command.mnemonic in ("wait_all", "wait_any", "wait_single"):
                # the entries a wait instruction watches are the ones its operands name when the instruction starts, as for
                # every other instruction (no other subroutine runs between the instructions that load the index / bound
                # registers and the wait itself; one may run, and write those registers, while the wait is blocked)
                started_with = self._expand_array_part(self._get_app_id(subroutine_id), command.entry if command.mnemonic == "wait_single" else command.slice)
            yield from super()._execute_command(subroutine_id, command)
            if command.mnemonic in ("wait_all", "wait_any", "wait_single"):
                app = self._get_app_id(subroutine_id)
                a, idx = started_with
                if command.mnemonic == "wait_single":
                    vals = [self._app_arrays[app][a, idx]]
                    ok = vals[0] is not None
                    what = f"@{a}[{idx}]"
                else:
                    vals = self._app_arrays[app][a, idx]
                    ok = all(v is not None for v in vals) if command.mnemonic == "wait_all" else any(v is not None for v in vals)
                    what = f"@{a}[{idx.start}:{idx.stop}]"
                if not ok:
                    raise Failure(f"wait-resumed-early:{command.mnemonic}", case, f"{command} of subroutine {subroutine_id} was started for {what} and resumed although these entries are {vals}")
                # a keep pair whose results the program can see is also mapped: the slice and the qubit become visible together
                ri_ = (a - 2) // 3
                if (a - 2) % 3 == 0 and 0 <= ri_ < len(scn["reqs"]) and scn["reqs"][ri_]["tp"] == "K":
                    rq = scn["reqs"][ri_]
                    arr = self._app_arrays[app][a, :]
                    um = self._qubit_unit_modules[app]
                    for k_ in range(rq["n"]):
                        sl = arr[OK * k_ : OK * k_ + OK]
                        if all(v is not None for v in sl):
                            rec = next((d for d in sched.delivered if d["req"] == ri_ and d["pair"] == k_), None)
                            later = [d for d in sched.delivered if d["req"] == ri_ and d["pair"] > k_ and rq["ids"][d["pair"]] == rq["ids"][k_]]
                            if rec is not None and "phys" in rec and not later and um[rq["ids"][k_]] != rec["phys"] and not (ri_, k_) in freed:
                                raise Failure("results-visible-before-qubit", case, f"after {command}: slice {k_} of request {ri_} is filled in but virtual qubit {rq['ids'][k_]} maps to {um[rq['ids'][k_]]}, the response carried physical qubit {rec['phys']}")

    by = None
    if scn.get("bystander"):
        from netqasm.qlink_compat import LinkLayerOKTypeK, LinkLayerOKTypeM, ReturnType

        by = sim.TraceExecutor("other-node")
        by._node_id_value = 5
        by.network_stack = net.ScriptedNetworkStack(by)
        by.init_new_application(0, 4)
        for j, (remote, sock, tp, role) in enumerate(scn["bystander"]):
            d = 0 if role == "create" else 1
            pid = sock + scn.get("purpose_offset", 0)
            if tp == "K":
                resp = LinkLayerOKTypeK(type=ReturnType.OK_K, create_id=900 + j, logical_qubit_id=by._get_unused_physical_qubit(), directionality_flag=d, sequence_number=9000 + j,
                                        purpose_id=pid, remote_node_id=remote, goodness=99, goodness_time=9, bell_state=3)
            else:
                resp = LinkLayerOKTypeM(type=ReturnType.OK_M, create_id=900 + j, measurement_outcome=1, measurement_basis=0, directionality_flag=d, sequence_number=9000 + j,
                                        purpose_id=pid, remote_node_id=remote, goodness=99, bell_state=3)
            by._handle_epr_response(resp)
        if len(by._pending_epr_responses) != len(scn["bystander"]):
            raise Failure("bystander:pending", case, f"a controller without requests holds {len(by._pending_epr_responses)} pending responses after {len(scn['bystander'])} arrived")
    ex = Ex("node")
    ex._node_id_value = 0
    stack = net.ScriptedNetworkStack(ex)
    stack.purpose_offset = scn.get("purpose_offset", 0)
    ex.network_stack = stack
    ex.init_new_application(0, 12)
    sched = Scheduler(scn, ex, stack, scn["schedule"])
    ex.wait_hook = sched.on_wait
    seen_req = {"n": 0}

    def between():
        sched.on_instr()

    ex.between_hook = between
    ex.step_bound = 5000
    # track which request instructions have executed: count create_epr/recv_epr instructions
    orig_create = ex._do_create_epr
    orig_recv = ex._do_recv_epr

    def mark(kind):
        def f(**kw):
            # the request being executed is the next un-executed one in program order
            if scn.get("concurrent"):
                # subroutines interleave: the request is identified by its result array
                sched.executed_reqs.add((kw["ent_results_array_address"] - 2) // 3)
                return (orig_create if kind == "c" else orig_recv)(**kw)
            for i in sched.issue_order:
                if i not in sched.executed_reqs:
                    sched.executed_reqs.add(i)
                    break
            return (orig_create if kind == "c" else orig_recv)(**kw)

        return f

    ex._do_create_epr = mark("c")
    ex._do_recv_epr = mark("r")
    in_progress = {"max": 0, "switches": 0}
    try:
        if scn.get("concurrent"):
            # cooperative execution: all subroutines are started; a subroutine runs until it blocks in a wait, then the
            # choice sequence decides between resuming one of the subroutines and delivering a response
            sched.current_sub = len(scn["subs"])
            ex.yield_on_wait = True
            gens = {s: ex.execute_subroutine(parse_text_subroutine(build_text(scn, s))) for s in range(len(scn["subs"]))}
            started: set = set()
            blocked_at: Dict[int, Tuple[int, int]] = {}  # subroutine -> progress stamp when it was last seen blocked
            last = None
            while gens:
                stamp = (ex.steps, len(sched.delivered))
                options: List[Tuple[str, Any]] = [("step", s) for s in sorted(gens) if blocked_at.get(s) != stamp]
                options += [("deliver", key) for key in sched.deliverable_keys()]
                if not options:
                    raise sim.WouldBlock("every subroutine is blocked and no response is in flight")
                what, arg = options[sched.choice(len(options))]
                if what == "deliver":
                    sched.max_outstanding = max(sched.max_outstanding, sched.outstanding())
                    sched.deliver_one(arg)
                    continue
                if last is not None and last != arg and last in gens:
                    in_progress["switches"] += 1
                last = arg
                started.add(arg)
                in_progress["max"] = max(in_progress["max"], len([s for s in gens if s in started]))
                finished = True
                for y in gens[arg]:
                    if y == ex.WAITING:
                        finished = False
                        break
                if finished:
                    del gens[arg]
                    blocked_at.pop(arg, None)
                else:
                    blocked_at[arg] = (ex.steps, len(sched.delivered))
        for s in range(len(scn["subs"]) if not scn.get("concurrent") else 0):
            sched.current_sub = s
            sub = parse_text_subroutine(build_text(scn, s))
            for _ in ex.execute_subroutine(sub):
                pass
    except Failure:
        raise
    except sim.WouldBlock:
        raise Failure("lost-response", case, f"a wait stays blocked although every response was delivered; pending={len(ex._pending_epr_responses)} queues={dict(ex._epr_recv_requests)}")
    except sim.StepBound:
        raise Failure("nontermination", case, "step bound exceeded")
    except Exception as e:
        msg = (str(e).splitlines() or [""])[0][:200]
        raise Failure(f"executor-raises:{type(e).__name__}", case, f"executor raised {type(e).__name__}: {msg}")
    # ------------------------------------------------ reference model comparison
    left = [x for q in sched.queues.values() for x in q]
    arrays = ex._app_arrays[0]._arrays
    by_req: Dict[int, List[Dict[str, Any]]] = {}
    for rec in sched.delivered:
        by_req.setdefault(rec["req"], []).append(rec)
    for i, r in enumerate(scn["reqs"]):
        recs = by_req.get(i, [])
        if len(recs) != r["n"]:
            raise Failure("harness:not-all-delivered", case, f"request {i}: {len(recs)} of {r['n']} responses delivered (left {left})")
        res = arrays.get(addr(i, "res"))
        for k, rec in enumerate(recs):
            if rec["pair"] != k:
                raise Failure("harness:order", case, "reference model order broken")
            got = list(res[OK * k : OK * k + OK])
            if got != rec["fields"]:
                raise Failure(f"result-slice:{r['tp']}:{r['role']}", case, f"request {i} ({r['role']} {r['tp']}): slice {k} of its result array holds {got}, response {k} was {rec['fields']}")
    want_alloc = [(scn["reqs"][rec["req"]]["ids"][rec["pair"]], rec["phys"]) for rec in sched.delivered if "phys" in rec]
    if sorted(alloc_log) != sorted(want_alloc):
        raise Failure("qubit-mapping", case, f"keep responses were mapped (virtual, physical) {sorted(alloc_log)}; the reference model expects {sorted(want_alloc)}")
    if by is not None:
        if len(by._pending_epr_responses) != len(scn["bystander"]):
            raise Failure("bystander:pending", case, f"the other controller's {len(scn['bystander'])} waiting responses became {len(by._pending_epr_responses)} while this controller ran")
        ex_pending = [r for r in ex._pending_epr_responses if r.sequence_number >= 9000]
        if ex_pending:
            raise Failure("bystander:leak", case, "responses delivered to another controller object are pending on this one")
    if ex._pending_epr_responses:
        raise Failure("pending-left", case, f"{len(ex._pending_epr_responses)} responses still pending at the end")
    leftover = {k: len(v) for k, v in list(ex._epr_create_requests.items()) + list(ex._epr_recv_requests.items()) if v}
    if leftover:
        raise Failure("request-not-retired", case, f"requests still queued after all their pairs arrived: {leftover}")
    um = ex._qubit_unit_modules[0]
    final: Dict[int, int] = {}
    for v, p in alloc_log:
        final[v] = p
    for v, p in final.items():
        if um[v] != p:
            raise Failure("unit-module", case, f"virtual qubit {v} maps to {um[v]}, last keep response for it carried physical qubit {p}")
    return {"early": sched.early, "max_outstanding": sched.max_outstanding, "delivered": len(sched.delivered), "in_progress": in_progress["max"], "switches": in_progress["switches"],
            "wires": sorted({WIRE_NAMES[d["wire"]] for d in sched.delivered})}


def shard(ctx: Ctx) -> None:
    stt = ctx.stats
    n = 1500 if ctx.tier == "quick" else 6000

    def body(scn):
        info = run(scn)
        nt = info["early"] >= 1 or info["max_outstanding"] >= 2
        labels = [f"reqs:{len(scn['reqs'])}", f"subs:{len(scn['subs'])}"] + sorted({f"{r['role']}-{r['tp']}" for r in scn["reqs"]})
        if info["early"]:
            labels.append("early-response")
        if info["max_outstanding"] >= 2:
            labels.append("outstanding>=2")
        if scn.get("bystander"):
            labels.append("second-controller-with-waiting-responses")
        if scn.get("family"):
            labels.append("family:" + scn["family"])
        if info["in_progress"] >= 2:
            labels.append("subroutines-in-progress>=2")
        if info["switches"]:
            labels.append("switched-away-from-a-blocked-subroutine")
        labels += ["wire:" + w for w in info["wires"]]
        if any(r.get("spare") for r in scn["reqs"]):
            labels.append("create-with-longer-result-array")
        if any(r["reuse"] for r in scn["reqs"]):
            labels.append("virtual-id-reuse")
        if scn.get("big_fields"):
            labels.append("response-fields-beyond-32-bits")
        if any("ids_from" in r for r in scn["reqs"]):
            labels.append("id-array-address-used-again")
        keys = [(r["remote"], r["sock"], r["role"]) for r in scn["reqs"]]
        if len(set(keys)) < len(keys):
            labels.append("same-key-requests")
        labels.append(f"purpose_offset:{scn.get('purpose_offset', 0)}")
        stt.case(scn, nt, labels, sample=scn if len(str(scn)) < 900 else None)

    ctx.search(st_scenario(), body, n, name="c12")
    if ctx.thorough():
        # complete enumeration of delivery placements for a family of small scenarios
        base = {
            "reqs": [
                {"role": "recv", "tp": "K", "n": 2, "remote": 1, "sock": 0, "ids": [0, 1], "reuse": False, "sub": 0, "wait": "all"},
                {"role": "recv", "tp": "K", "n": 2, "remote": 1, "sock": 0, "ids": [2, 3], "reuse": False, "sub": 0, "wait": "all"},
            ],
            "subs": [[["req", 0], ["filler"], ["req", 1], ["wait", 1], ["wait", 0], ["ret", 0], ["ret", 1]]],
        }
        variants = []
        for roles in itertools.product(["recv", "create"], repeat=2):
            for tps in itertools.product(["K", "M"], repeat=2):
                v = {"reqs": [dict(base["reqs"][0], role=roles[0], tp=tps[0], ids=[0, 1] if tps[0] == "K" else []), dict(base["reqs"][1], role=roles[1], tp=tps[1], ids=[2, 3] if tps[1] == "K" else [])], "subs": base["subs"]}
                variants.append(v)
        k = 0
        n_enum = 0
        for v in variants:
            for sch in itertools.product([0, 1, 2], repeat=7):
                k += 1
                if k % ctx.nshards != ctx.shard:
                    continue
                # spread the 7 choices over the first instructions (one choice = number of deliveries, key choice 0)
                schedule = []
                for c in sch:
                    schedule += [c] + [0] * c
                scn = dict(v, schedule=schedule)
                n_enum += 1
                try:
                    info = run(scn)
                    stt.case(scn, info["early"] >= 1 or info["max_outstanding"] >= 2, ["enum"])
                except Failure as f:
                    ctx.fail(f)
        stt.exhaustive_domains["two-request scenarios x role/type variants x 3^7 delivery placements"] = n_enum


def replay(case):
    try:
        run(case)
    except Failure as f:
        return f
    return None
