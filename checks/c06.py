"""C06 — pre-compiled templated subroutines equal direct compilation.

Flow A: build with Template operands -> conn.compile() -> subroutine.instantiate(app_id, values) ->
conn.commit_subroutine().  Flow B: build with the concrete values -> conn.flush().  Twin controllers fed the
same measurement script; compared after the commit and after every later flush.  Without a transpiler flow A
is additionally compared with direct execution of the program (the C05 oracle).
"""
from __future__ import annotations

import copy
from typing import Any, Dict, List

from hypothesis import strategies as st

from checks import c05
from vlib import hostprog as hp
from vlib.runner import Ctx, Failure

LEVEL = "exploration"
RULE = (
    "host programs from the C05 grammar whose flush points are drawn as ordinary flush or compile/instantiate/commit; "
    "segments committed via compile() contain >=1 rotation whose numerator is a Template (values 0..255 per name); also "
    "compile-now / other operations and flushes / commit-later histories compared with the same operations flushed in commit order; compiler "
    "in {none, NV transpiler}; 0..3 further statements+flushes after a precompiled commit; blocks with two template names, where an "
    "instantiate() naming only the first (with another value) must fail without touching the block before the complete call; one block "
    "(template rotations, `d` given or left out) written/compiled/filled/committed 2..4 times on one connection with other values each time; the host either builds a new dict of "
    "template values for every instantiate() or keeps ONE dict object for the whole connection (updating some entries between rounds) and hands "
    "that same object to every instantiate(), and a later pre-compiled block may use a template name that an earlier block already used.  Non-trivial = a template value "
    "changes the trace (n mod 2^(d+1) != 0) and >=1 later flush follows a precompiled commit; distinct by (AST, valuation)"
)
ASSUMPTIONS = [
    "twin controllers receive identical measurement scripts",
    "with the NV transpiler only flow A vs flow B is compared (the direct evaluator speaks vanilla gates)",
]
SHARDS = {"quick": 4, "thorough": 16}


@st.composite
def st_case(draw, tier="quick"):
    opts = {"max_depth": 2, "max_stmts": 16, "max_top": 7, "qubits": 2, "regs_cross_flush": False, "allow_newreg": True, "allow_regm": True}
    prog = draw(hp.st_program(opts))
    stmts = prog["stmts"]
    # turn some flushes into precompiled commits and make sure each precompiled segment has a template rotation
    values: Dict[str, int] = {}
    out: List[Any] = []
    seg_start = 0
    n_t = 0
    live_top: List[int] = []
    new_stmts: List[Any] = []
    any_pre = False
    for s in stmts:
        if s[0] == "flush":
            pre = draw(st.integers(0, 2)) > 0
            if pre:
                any_pre = True
                # insert a template rotation on a top-level qubit (create one if needed)
                q = None
                for t in new_stmts[seg_start:]:
                    pass
                name = f"t{n_t}"
                n_t += 1
                values[name] = draw(st.integers(0, 255))
                d = draw(st.sampled_from([None, 0, 1, 2, 3, 4, 5, 7, 8, 9, 16, 200, 255]))  # None = the `d` argument is left out
                qid = 1000 + n_t
                second = []
                if draw(st.booleans()):
                    # a second template operand with its own name in the same block
                    name2 = f"u{n_t}"
                    values[name2] = draw(st.integers(0, 255))
                    second = [["rot", draw(st.sampled_from("XYZ")), qid, {"template": name2}, draw(st.integers(0, 5))]]
                if draw(st.booleans()):
                    new_stmts += [["newq", qid], ["rot", draw(st.sampled_from("XYZ")), qid, {"template": name}, d]] + second + [["meas", qid, ["elem", 0, 0], False]]
                else:
                    # outcome kept in a register (RegFuture) of the precompiled block
                    new_stmts += [["newq", qid], ["rot", draw(st.sampled_from("XYZ")), qid, {"template": name}, d]] + second + [["meas", qid, ["newregm", 500 + n_t], False]]
                new_stmts.append(["pflush"])
            else:
                new_stmts.append(["flush"])
            seg_start = len(new_stmts)
        else:
            new_stmts.append(s)
    if not any_pre:
        # force the last flush to be precompiled
        new_stmts.pop()
        values["t0"] = draw(st.integers(0, 255))
        new_stmts += [["newq", 1001], ["rot", "X", 1001, {"template": "t0"}, draw(st.integers(0, 5))], ["meas", 1001, ["elem", 0, 0], False], ["pflush"]]
        # and 0..2 later plain statements + flush
        for _ in range(draw(st.integers(0, 2))):
            new_stmts += [["add", ["elem", 0, 0], draw(st.integers(0, 3)), None], ["flush"]]
    nv = draw(st.integers(0, 2)) == 0
    fail_first = draw(st.booleans())
    # the host keeps its template values in one dict object and hands that object to every instantiate() of the connection ...
    share_dict = draw(st.booleans())
    # ... and a later block may use a template name that an earlier block already used (same name => same value).  Only the first
    # template rotation of a block ("t<k>") is renamed, so a block with two template names keeps two distinct names
    seen: Dict[str, int] = {}  # template name -> index of the block that used it first
    reused = 0  # rotations in a later block that use a name of an earlier block
    block = 0
    for s in new_stmts:
        if s[0] in ("flush", "pflush"):
            block += 1
        elif s[0] == "rot" and isinstance(s[3], dict):
            if seen and s[3]["template"].startswith("t") and draw(st.integers(0, 2)) == 0:
                s[3] = {"template": draw(st.sampled_from(sorted(seen)))}
                reused += seen[s[3]["template"]] < block
            else:
                seen.setdefault(s[3]["template"], block)
    return {"stmts": new_stmts, "outcomes": prog["outcomes"], "qubits": 2, "values": values, "nv": nv, "fail_first": fail_first, "share_dict": share_dict, "reused_names": reused}


@st.composite
def st_delayed(draw):
    """compile() now, other work (and possibly a flush) in between, commit later"""
    def adds(n):
        out = []
        for _ in range(n):
            out.append(["add", ["elem", draw(st.integers(0, 1)), 0], draw(st.integers(1, 3)), draw(st.sampled_from([None, None, 3]))])
            if draw(st.integers(0, 2)) == 0:
                out.append(["flush"])
        return out

    prefix = [["newarr", 0, [draw(st.integers(0, 3))]], ["newarr", 1, [draw(st.integers(0, 3)), 1]]] + adds(draw(st.integers(0, 2)))
    # everything the later "middle" operations touch must already exist on the controller when compile() is called:
    # operations still pending at that point become part of the held subroutine and only run at commit time
    if prefix[-1] != ["flush"]:
        prefix.append(["flush"])
    d = draw(st.integers(0, 5))
    seg = [["newarr", 2, [None]], ["newq", 1001], ["rot", draw(st.sampled_from("XYZ")), 1001, {"template": "t0"}, d], ["meas", 1001, ["elem", 2, 0], False]]
    if draw(st.booleans()):
        seg.insert(0, ["add", ["elem", 1, 1], 1, None])
    middle = adds(draw(st.integers(0, 3)))
    if draw(st.booleans()):
        # operations that allocate while the precompiled subroutine is still held back
        middle = [["newarr", 3, [draw(st.integers(0, 3)), 2]], ["add", ["elem", 3, 0], 1, None]] + middle
    tail = adds(draw(st.integers(0, 2)))
    # operations written after compile() that use what the held subroutine creates (its outcome array): they stay pending and
    # reach the controller with the first flush after the commit
    after = [["add", ["elem", 2, 0], draw(st.integers(1, 3)), None] for _ in range(draw(st.integers(0, 2)))] if draw(st.booleans()) else []
    no_template = draw(st.integers(0, 3)) == 0
    if no_template:
        # a block without template operands may be committed as compiled, without instantiate()
        seg = [x if x[0] != "rot" else ["rot", x[1], x[2], draw(st.integers(0, 31)), x[4]] for x in seg]
    return {
        "delayed": True, "prefix": prefix, "segment": seg, "middle": middle, "after": after, "tail": tail,
        "values": {"t0": draw(st.integers(0, 255))}, "nv": draw(st.integers(0, 2)) == 0, "no_instantiate": no_template,
        "outcomes": draw(st.lists(st.integers(0, 1), max_size=4)), "qubits": 2,
    }


def check_delayed(case) -> Dict[str, Any]:
    after = case.get("after", [])
    a_stmts = case["prefix"] + case["segment"] + [["pcompile"]] + case["middle"] + after + [["pcommit"]] + case["tail"] + [["flush"]]
    b_stmts = case["prefix"] + case["middle"] + case["segment"] + [["pflush"]] + after + case["tail"] + [["flush"]]
    A = Recorder(case, "A")
    A.run(a_stmts)
    B = Recorder(case, "B")
    B.run(b_stmts)
    if A.error or B.error:
        raise Failure("delayed:error", case, f"compile-now/commit-later flow ended with {A.error}; the same operations flushed in commit order ended with {B.error}")
    decl = [a for r in A.records for a in r["declared"]]
    if len(decl) != len(set(decl)):
        raise Failure("delayed:array-redeclared", case, f"with compile() ... commit_subroutine() later, arrays were declared more than once: {decl}")
    ra, rb = A.records[-1], B.records[-1]
    keys = (("host_arrays", "host-visible arrays"),) if any(x[0] == "newarr" for x in case["middle"]) else (("arrays", "controller arrays"), ("host_arrays", "host-visible arrays"))
    for key, what in keys:
        if ra[key] != rb[key]:
            raise Failure(f"delayed:{key}", case, f"final {what} differ: compile-now/commit-later {ra[key]} vs flushed in commit order {rb[key]}")
    evA = sorted(e for r in A.records for e in r["events"])
    evB = sorted(e for r in B.records for e in r["events"])
    if evA != evB:
        raise Failure("delayed:events", case, f"controller gate/measure events differ: {evA} vs {evB}")
    return {"flushes": len(A.records), "error": None, "middle_flush": any(x[0] == "flush" for x in case["middle"])}


def _subst(stmts, values):
    out = []
    for s in stmts:
        if s[0] == "rot" and isinstance(s[3], dict):
            out.append(["rot", s[1], s[2], values[s[3]["template"]], s[4]])
        elif s[0] in ("if",):
            out.append(s[:5] + [_subst(s[5], values)])
        elif s[0] == "loop":
            out.append(s[:6] + [_subst(s[6], values)])
        elif s[0] == "foreach":
            out.append(s[:4] + [_subst(s[4], values)])
        elif s[0] == "until":
            out.append(s[:3] + [_subst(s[3], values)] + s[4:6] + [_subst(s[6], values) if s[6] else None])
        elif s[0] == "pflush":
            out.append(["flush"])
        else:
            out.append(s)
    return out


class Recorder:
    def __init__(self, case, flow: str):
        from netqasm.lang.instr.flavour import NVFlavour
        from netqasm.sdk.transpile import NVSubroutineTranspiler
        from vlib import sim

        kw = {"max_qubits": 5}
        flavour = None
        if case["nv"]:
            kw["compiler"] = NVSubroutineTranspiler
            flavour = NVFlavour()
        self.ctrl, self.conn = sim.fresh(sim.TraceExecutor, flavour=flavour, **kw)
        self.ex = self.ctrl._executor
        self.ex.outcomes = list(case["outcomes"])
        self.ex.step_bound = 200000
        self.records: List[Dict[str, Any]] = []
        self.flow = flow
        self.values = case["values"]
        self.error = None
        self.declared_twice: List[int] = []
        self._seen_arrays: set = set()
        self._pos = 0
        self.held = None
        self._n_subs_seen = 0
        self.no_instantiate = bool(case.get("no_instantiate"))
        self.fail_first = bool(case.get("fail_first")) and flow == "A"
        self.n_failed_first = 0
        # "share_dict": one dict object, created once by the host, is the `arguments` of every instantiate() on this connection
        self.shared = dict(case["values"]) if case.get("share_dict") else None
        self.n_instantiate = 0

    def arguments(self) -> Dict[str, int]:
        self.n_instantiate += 1
        return self.shared if self.shared is not None else dict(self.values)

    def incomplete_first(self, sub) -> None:
        """an instantiate() call that names only the first template of the block (and a different value for it) fails and
        must leave the compiled block as it was, so that the complete call that follows still fills every operand"""
        from netqasm.lang.operand import Template

        if not self.fail_first:
            return
        names = [op.name for ins in sub.instructions for op in ins.operands if isinstance(op, Template)]
        distinct = list(dict.fromkeys(names))
        if len(distinct) < 2:
            return
        try:
            sub.instantiate(self.conn.app_id, {distinct[0]: (self.values[distinct[0]] + 1) % 256})
        except Exception:
            self.n_failed_first += 1
            return
        raise Failure("instantiate:incomplete-accepted", {"values": self.values}, f"instantiate() with a value for {distinct[0]} only did not raise although the block also needs {distinct[1:]}")

    def run(self, stmts):
        from netqasm.lang.operand import Template

        rec = self

        class Run(hp.SdkRun):
            def run_stmt(self, s):
                if s[0] == "rot" and isinstance(s[3], dict):
                    from netqasm.sdk.qubit import Qubit  # noqa

                    n = Template(s[3]["template"]) if rec.flow == "A" else rec.values[s[3]["template"]]
                    getattr(self.qubits[s[2]], "rot_" + s[1])(n=n, **({} if s[4] is None else {"d": s[4]}))
                    return
                if s[0] == "pcompile":
                    rec.held = self.conn.compile()
                    return
                if s[0] == "pcommit":
                    if rec.held is not None:
                        if not rec.no_instantiate:
                            rec.incomplete_first(rec.held)
                            rec.held.instantiate(self.conn.app_id, rec.arguments())
                        self.conn.commit_subroutine(rec.held)
                    self.on_flush(self.n_flush)
                    self.n_flush += 1
                    return
                if s[0] == "pflush":
                    if rec.flow == "A":
                        sub = self.conn.compile()
                        if sub is not None:
                            rec.incomplete_first(sub)
                            sub.instantiate(self.conn.app_id, rec.arguments())
                            self.conn.commit_subroutine(sub)
                    else:
                        self.conn.flush()
                    self.on_flush(self.n_flush)
                    self.n_flush += 1
                    return
                super().run_stmt(s)

        self.runner = Run(self.conn, self.on_flush)
        try:
            self.runner.run_block(stmts)
        except Failure:
            raise
        except Exception as e:
            self.error = f"{type(e).__name__}: {(str(e).splitlines() or [str()])[0][:160]}"

    def on_flush(self, k):
        app = self.conn.app_id
        ex = self.ex
        # which arrays did the subroutine of this flush declare?
        subs = self.conn.sent_subroutines(flavour=self.ctrl.flavour)
        new_subs = subs[self._n_subs_seen :]
        self._n_subs_seen = len(subs)
        declared = [i.address.address for sub in new_subs for i in sub.instructions if i.mnemonic == "array"]
        host = {}
        for aid, h in self.runner.arrays.items():
            try:
                host[aid] = [h[i] for i in range(len(h))]
            except Exception as e:
                host[aid] = f"{type(e).__name__}"
        regs = {}
        for rid, h in self.runner.regs.items():
            try:
                regs[rid] = h.value
            except Exception as e:
                regs[rid] = type(e).__name__
        futs = []
        for ref, f in self.runner.futures:
            try:
                futs.append((tuple(ref), f.value))
            except Exception as e:
                futs.append((tuple(ref), type(e).__name__))
        self.records.append(
            {
                "events": [tuple(e) for e in ex.events[self._pos :]],
                "arrays": {a: list(v) for a, v in sorted(ex._app_arrays[app]._arrays.items())},
                "host_arrays": host,
                "host_futures": futs,
                "host_regs": regs,
                "declared": declared,
                "n_subroutines": len(subs),
            }
        )
        self._pos = len(ex.events)


def check(case) -> Dict[str, Any]:
    if case.get("delayed"):
        return check_delayed(case)
    stmts = case["stmts"]
    A = Recorder(case, "A")
    A.run(stmts)
    B = Recorder(case, "B")
    B.run(stmts)
    n = min(len(A.records), len(B.records))
    for k in range(n):
        ra, rb = A.records[k], B.records[k]
        for key in ("events", "arrays", "host_arrays", "host_futures", "host_regs", "declared", "n_subroutines"):
            if ra[key] != rb[key]:
                what = {"events": "controller trace", "arrays": "controller arrays", "host_arrays": "host-visible arrays", "host_futures": "host-visible Future values", "host_regs": "host-visible RegFuture values", "declared": "arrays declared by the subroutine", "n_subroutines": "number of subroutines sent so far"}[key]
                raise Failure(f"A-vs-B:{key}", case, f"flush {k}: {what} differ: precompiled flow {ra[key]} vs direct flow {rb[key]}")
    if A.error != B.error or len(A.records) != len(B.records):
        raise Failure("A-vs-B:error", case, f"precompiled flow ended with {A.error} after {len(A.records)} flushes, direct flow with {B.error} after {len(B.records)}")
    info = {"flushes": n, "error": A.error, "failed_first": A.n_failed_first, "same_dict_again": A.shared is not None and A.n_instantiate >= 2}
    if not case["nv"] and A.error is None:
        # flow A against direct execution of the program with the values substituted
        prog = {"stmts": _subst(stmts, case["values"]), "outcomes": case["outcomes"], "qubits": case["qubits"]}
        dres = hp.run_direct(prog, prog["outcomes"])
        binding: Dict[int, int] = {}
        for k, (ra, snap) in enumerate(zip(A.records, dres.snapshots)):
            msg = c05.match_events(snap["events"], c05.norm_ctrl_events(list(ra["events"])), binding)
            if msg:
                raise Failure("A-vs-direct:events", case, f"flush {k}: precompiled flow differs from direct execution: {msg}")
            for aid, want in snap["arrays"].items():
                got = ra["host_arrays"].get(aid)
                if got is not None and got != list(want):
                    raise Failure("A-vs-direct:host-array", case, f"flush {k}: host reads array {aid} as {got} in the precompiled flow; direct execution gives {want}")
        info.update(dres.info)
    return info


def _trace_sensitive(case) -> bool:
    for s in case["stmts"]:
        if s[0] == "rot" and isinstance(s[3], dict):
            v = case["values"][s[3]["template"]]
            if v % (2 ** ((s[4] or 0) + 1)) != 0:
                return True
    return False


def shard(ctx: Ctx) -> None:
    stt = ctx.stats
    n = 250 if ctx.tier == "quick" else 4000

    def body(case):
        try:
            info = check(case)
        except hp.OutOfDomainProgram as e:
            stt.rejected["out-of-domain:" + str(e)] += 1
            stt.evaluations += 1
            return
        kinds = [s[0] for s in case["stmts"] if s[0] in ("flush", "pflush")]
        later = any(k == "pflush" and i < len(kinds) - 1 for i, k in enumerate(kinds))
        nt = _trace_sensitive(case) and later and info.get("error") is None
        labels = ["nv" if case["nv"] else "vanilla", f"pflush:{kinds.count('pflush')}", f"flush:{kinds.count('flush')}"]
        if later:
            labels.append("flush-after-precompiled")
        if info.get("error"):
            labels.append("both-flows-raise")
        if info.get("failed_first"):
            labels.append("incomplete-instantiate-before-the-complete-one")
        if info.get("same_dict_again"):
            labels.append("one-dict-object-for->=2-instantiate-calls")
            if case.get("reused_names"):
                labels.append("one-dict-object-and-a-template-name-used-again-in-a-later-block")
        stt.case([case["stmts"], case["values"], case["nv"], bool(case.get("share_dict"))], nt, labels, sample=case if len(str(case)) < 700 else None)

    ctx.search(st_case(ctx.tier), body, n, name="c06")

    def body_delayed(case):
        info = check(case)
        rotx = next(x for x in case["segment"] if x[0] == "rot")
        v = case["values"]["t0"] if isinstance(rotx[3], dict) else rotx[3]
        d = rotx[4]
        nt = v % (2 ** (d + 1)) != 0 and bool(case["middle"])
        labels = ["delayed", "nv" if case["nv"] else "vanilla"] + (["flush-between-compile-and-commit"] if info.get("middle_flush") else []) + (["ops-between-compile-and-commit"] if case["middle"] else []) + (["pending-ops-that-use-the-held-subroutine's-array"] if case.get("after") else [])
        stt.case([case["prefix"], case["segment"], case["middle"], case["tail"], case["values"], case["nv"]], nt, labels, sample=case if len(str(case)) < 900 else None)

    ctx.search(st_delayed(), body_delayed, n // 2, name="c06-delayed", salt=3)

    def body_repeat(case):
        check_repeat(case)
        distinct = len({tuple(sorted(r.items())) for r in case["rounds"]}) >= 2
        labels = ["repeat", "nv" if case["nv"] else "vanilla", f"rounds:{len(case['rounds'])}"]
        if case.get("shared_dict"):
            labels.append("repeat:one-dict-object-for-every-round")
            used = {name for _, name, _ in case["block"]}
            if any(not (used <= set(d)) for d in case["deltas"][1:]):
                labels.append("repeat:one-dict-object,-a-used-entry-left-as-it-was-for-a-later-round")
        stt.case([case["block"], case["rounds"], case["nv"], case["plain_between"], bool(case.get("shared_dict"))], distinct, labels, sample=case)

    ctx.search(st_repeat(), body_repeat, n // 2, name="c06-repeat", salt=4)


# ------------------------------------------------------------------ the same block compiled several times


@st.composite
def st_repeat(draw):
    """one block of operations (rotations with template operands on a qubit that stays alive, optionally a measurement into a
    register) is written, compiled, filled and committed several times on one connection, each time with other values"""
    n_rot = draw(st.integers(1, 3))
    block = [[draw(st.sampled_from("XYZ")), draw(st.sampled_from(["t", "t", "u"])), draw(st.sampled_from([None, 0, 1, 2, 3, 4, 8, 31, 255]))] for _ in range(n_rot)]
    meas_reg = draw(st.integers(0, 2)) == 0
    n_rounds = draw(st.integers(17, 20)) if meas_reg and draw(st.booleans()) else draw(st.integers(2, 4))
    rounds = [{"t": draw(st.integers(0, 31)), "u": draw(st.integers(0, 31))} for _ in range(n_rounds)]
    # meas_reg: every round works on a fresh qubit and measures it into a register (the outcome handle of a compiled block)
    # shared_dict: the host keeps ONE dict of template values for the connection; before each round it updates some (possibly none)
    # of the entries in place and hands the same object to instantiate().  `rounds` holds the resulting valuation of every round.
    shared_dict = draw(st.booleans())
    deltas: List[Dict[str, int]] = []
    if shared_dict:
        cur = dict(rounds[0])
        deltas.append(dict(cur))
        for i in range(1, n_rounds):
            delta = {k: rounds[i][k] for k in ("t", "u") if draw(st.integers(0, 2)) > 0}
            cur.update(delta)
            deltas.append(delta)
            rounds[i] = dict(cur)
    return {"repeat": True, "shared_dict": shared_dict, "deltas": deltas, "block": block, "rounds": rounds, "nv": draw(st.integers(0, 2)) == 0, "plain_between": draw(st.booleans()) and not meas_reg, "meas_reg": meas_reg,
            "outcomes": [draw(st.integers(0, 1)) for _ in range(n_rounds)] if meas_reg else [], "values": {}}


def check_repeat(case) -> Dict[str, Any]:
    from netqasm.lang.operand import Template
    from netqasm.sdk.qubit import Qubit

    traces = {}
    for flow in ("A", "B"):
        rec = Recorder(case, flow)
        conn, ex = rec.conn, rec.ex
        shared: Dict[str, int] = {}  # the host's one dict of template values (flow A with "shared_dict")
        try:
            q = Qubit(conn)
            conn.flush()
            start = len(ex.events)
            handles = []
            for i_round, vals in enumerate(case["rounds"]):
                if case.get("meas_reg"):
                    q2 = Qubit(conn)
                for axis, name, d in case["block"]:
                    if case.get("meas_reg"):
                        n = Template(name) if flow == "A" else vals[name]
                        getattr(q2, "rot_" + axis)(n=n, **({} if d is None else {"d": d}))
                        continue
                    n = Template(name) if flow == "A" else vals[name]
                    getattr(q, "rot_" + axis)(n=n, **({} if d is None else {"d": d}))
                if case.get("meas_reg"):
                    handles.append(q2.measure(store_array=False))
                if flow == "A":
                    sub = conn.compile()
                    if case.get("shared_dict"):
                        shared.update(case["deltas"][i_round])
                        sub.instantiate(conn.app_id, shared)
                    else:
                        sub.instantiate(conn.app_id, dict(vals))
                    conn.commit_subroutine(sub)
                else:
                    conn.flush()
                if case["plain_between"]:
                    q.H()
                    conn.flush()
            q.measure()
            conn.flush()
        except Exception as e:
            raise Failure(f"repeat:raises:{flow}", case, f"flow {flow}: {type(e).__name__}: {(str(e).splitlines() or [''])[0][:160]}")
        traces[flow] = [tuple(e) for e in ex.events[start:]] + [("host-reads", [int(h) for h in handles])]
    if traces["A"] != traces["B"]:
        k = next((i for i, (a, b) in enumerate(zip(traces["A"], traces["B"])) if a != b), min(len(traces["A"]), len(traces["B"])))
        raise Failure("repeat:trace", case, f"the block compiled/instantiated/committed {len(case['rounds'])} times differs from flushing it with the same values at event {k}: "
                      f"{traces['A'][k:k + 3]} vs {traces['B'][k:k + 3]}")
    return {"rounds": len(case["rounds"])}


def replay(case):
    try:
        if case.get("repeat"):
            check_repeat(case)
            return None
        check(case)
    except hp.OutOfDomainProgram:
        return None
    except Failure as f:
        return f
    return None
