"""C08 — NV transpilation preserves program behaviour, not only gates.

The original vanilla subroutine and its NV-transpiled copy are run on twin state-vector executors from the
same state under the same measurement script; classical memory, quantum state (global phase free) and the
order of non-gate instructions are compared.  With debug=True the object judged is the serialised subroutine.
"""
from __future__ import annotations

import copy
from typing import Any, Dict, List

import numpy as np
from hypothesis import strategies as st

from vlib import hostprog as hp
from vlib import quantum as qm
from vlib.runner import Ctx, Failure

LEVEL = "exploration"
RULE = (
    "two sources of vanilla subroutines: (a) host programs from the C05 grammar (gates inside loops/ifs, trailing labels) built "
    "by the real Builder without a compiler; (b) generated instruction lists in SDK idiom (set Qk id before every gate, "
    "branches across gates, targets just past the end or directly on a two-qubit gate (every qubit prepared in a state no gate leaves alone), counted loops, 1..4 qubits with electron = id 0, several Q registers); "
    "debug in {False, True}.  Non-trivial = a taken branch whose target lies after an expanded gate, or a two-qubit gate on a "
    "carbon-carbon placement, or an end label; distinct by program hash"
)
ASSUMPTIONS = [
    "vanilla and NV gate semantics from vlib.quantum; mov = swap onto a fresh target; forced measurement outcomes identical on both sides",
    "virtual qubit 0 (the electron) is allocated whenever a two-carbon gate executes (the unallocated-electron case is C09's open finding)",
    "two-qubit gates take Q registers written by `set` while the open finding q-reg-from-load is listed; single-qubit gates also run on a register that is only ever written by `load`",
    "every executed NV controlled rotation must have the electron (virtual id 0) as control and a carbon as target",
]
SHARDS = {"quick": 4, "thorough": 16}
KF_LOAD = "q-reg-from-load"


# ------------------------------------------------------------------ source (b): SDK-idiom instruction lists

GATES1 = ["x", "y", "z", "h", "k", "s", "t"]


@st.composite
def st_idiom(draw, allow_load_q=False):
    nq = draw(st.integers(1, 4))
    head = ["# NETQASM 0.0", "# APPID 0"]
    lines: List[str] = list(head) + ["array 6 @0"]
    stored = [draw(st.integers(0, 2)) for _ in range(6)]
    for i in range(6):
        lines.append(f"store {stored[i]} @0[{i}]")
    for q in range(nq):
        lines += [f"set Q0 {q}", "qalloc Q0", "init Q0"]
    # array @1 holds the qubit ids; one Q register (QL) is only ever written by `load` from it, as FutureQubit code does
    lines.append(f"array {nq} @1")
    for q in range(nq):
        lines.append(f"store {q} @1[{q}]")
    QL = draw(st.sampled_from(["Q1", "Q1", "Q2"] + [f"Q{i}" for i in range(16)]))
    lines.append(f"load {QL} @1[{draw(st.integers(0, nq - 1))}]")
    # the body may be a subroutine of its own (state persists): then its first instruction can be a loop label (line 0)
    split = draw(st.integers(0, 2)) == 0
    prologue = None
    if split:
        prologue = "\n".join(lines) + "\n"
        lines = list(head)
    labels = [0]
    # a handful of the 16 Q registers per program (different ones in different programs)
    qregs = sorted(draw(st.sets(st.sampled_from([f"Q{i}" for i in range(16) if f"Q{i}" != QL]), min_size=2, max_size=5)))
    loop_regs = ["R5", "R6"]
    info = {"cc": False, "end_label": False, "loops": 0, "ifs": 0, "load_q": False}

    def new_label(prefix):
        labels[0] += 1
        return f"{prefix}{labels[0]}"

    def gate_lines():
        k = draw(st.integers(0, 11))
        ra, rb = draw(st.sampled_from(qregs)), None
        if k >= 10:
            # single-qubit gate on the load-written register: freshly loaded, or still holding an earlier id
            pre = [f"load {QL} @1[{draw(st.integers(0, nq - 1))}]"] if draw(st.booleans()) else []
            info["load_single"] = True
            return pre + [f"{draw(st.sampled_from(GATES1))} {QL}"]
        if k <= 3:
            q = draw(st.integers(0, nq - 1))
            return [f"set {ra} {q}", f"{draw(st.sampled_from(GATES1))} {ra}"]
        if k <= 5:
            q = draw(st.integers(0, nq - 1))
            # (numerators up to the 8-bit limit, steps down to pi/256: what the SDK emits for an arbitrary angle)
            n_, d_ = draw(st.sampled_from([(draw(st.integers(0, 31)), draw(st.integers(0, 5))), (draw(st.integers(0, 255)), draw(st.integers(0, 8)))]))
            return [f"set {ra} {q}", f"rot_{draw(st.sampled_from('xyz'))} {ra} {n_} {d_}"]
        if k <= 7 and nq >= 2:
            a = draw(st.integers(0, nq - 1))
            b = draw(st.sampled_from([x for x in range(nq) if x != a]))
            rb = draw(st.sampled_from([r for r in qregs if r != ra]))
            if a != 0 and b != 0:
                info["cc"] = True
            g2 = draw(st.sampled_from(['cnot', 'cphase']))
            if allow_load_q and draw(st.integers(0, 3)) == 0:
                # the qubit id reaches the register through memory, as FutureQubits do
                info["load_q"] = True
                return [f"set {ra} {draw(st.integers(0, nq - 1))}", f"store {a} @0[5]", f"load {ra} @0[5]", f"set {rb} {b}", f"{g2} {ra} {rb}"]
            tail = []
            if draw(st.booleans()):
                # a program register must survive the expansion of the gate: use the load-written register afterwards
                # without writing it again
                info["load_single"] = True
                tail = [f"{draw(st.sampled_from(GATES1))} {QL}"]
            noise = []
            if draw(st.integers(0, 2)) == 0:
                # a classical register with the same index as one of the qubit registers is written in between
                idx = draw(st.sampled_from([ra, rb]))[1:]
                # (C15 is left alone: the transpiler's own no-op at a past-the-end target is `set C15 1337`, a register SDK code never uses)
                noise = [f"set {draw(st.sampled_from(['C', 'M'])) if idx != '15' else 'M'}{idx} {draw(st.integers(0, nq - 1))}"]
                info["same_index_classical_set"] = True
            return [f"set {ra} {a}", f"set {rb} {b}"] + noise + [f"{g2} {ra} {rb}"] + tail
        if k == 9 and nq >= 2 and draw(st.booleans()):
            # a qubit is released and allocated again through the same register; the register still names it for the next gate
            a = draw(st.integers(0, nq - 1))
            b = draw(st.sampled_from([x for x in range(nq) if x != a]))
            rb = draw(st.sampled_from([r for r in qregs if r != ra]))
            if a != 0 and b != 0:
                info["cc"] = True
            info["realloc"] = True
            # (measured first: releasing a qubit that is still entangled is not a defined operation)
            return [f"set {ra} {a}", f"meas {ra} M0", f"qfree {ra}", f"qalloc {ra}", f"init {ra}", f"set {rb} {b}", f"{draw(st.sampled_from(['cnot', 'cphase']))} {ra} {rb}"]
        if k == 8 and nq <= 4 and not info.get("sdk_mov") and draw(st.booleans()):
            # what the SDK emits when it moves a fresh pair to memory: the state of the communication qubit (id 0) is moved into
            # a freshly initialised qubit, both named through classical registers whose values are computed at run time
            info["sdk_mov"] = True
            idxs = [r[1:] for r in qregs if r[1:] not in ("1", "2", "5", "6", "9", "10")]
            ma, mb = (f"R{idxs[0]}", f"R{idxs[1]}") if len(idxs) >= 2 and draw(st.booleans()) else ("R7", "R8")  # same indices as qubit registers in use, or not
            if draw(st.integers(0, 2)) == 0:
                # the target named by a Q register (its value known to the transpiler), the source by a classical one (unknown)
                tq = "Q0" if QL != "Q0" and draw(st.booleans()) else ra
                return [f"set Q9 {nq}", "qalloc Q9", "init Q9", f"set {ma} 0", f"set {tq} {nq}", f"mov {ma} {tq}",
                        f"set {ra} {nq}", f"{draw(st.sampled_from(GATES1))} {ra}", f"set {ra} 0", "init " + ra]
            return [f"set Q9 {nq}", "qalloc Q9", "init Q9", f"set {ma} 0", f"set {mb} 0", f"set R9 {nq}", f"add {mb} {mb} R9", f"mov {ma} {mb}",
                    f"set {ra} {nq}", f"{draw(st.sampled_from(GATES1))} {ra}", f"set {ra} 0", "init " + ra]
        if k == 8:
            q = draw(st.integers(0, nq - 1))
            return [f"set {ra} {q}", f"meas {ra} M0", f"store M0 @0[{draw(st.integers(0, 5))}]"]
        return [f"set R1 {draw(st.integers(0, 3))}", "add R2 R1 R1", f"store R2 @0[{draw(st.integers(0, 5))}]"]

    def block(depth):
        out = []
        for _ in range(draw(st.integers(1, 3))):
            c = draw(st.integers(0, 9)) if depth < 2 else 0
            if c <= 5:
                out += gate_lines()
            elif c <= 7:
                info["ifs"] += 1
                lab = new_label("IF_EXIT")
                cond = draw(st.sampled_from(["beq", "bne", "blt", "bge"]))
                keep = draw(st.integers(0, 2)) == 0 and nq >= 3
                pre, inside, post = [], [], []
                if keep:
                    # a qubit register set before the conditional keeps its value through it (unless the taken body sets it again,
                    # after a carbon-carbon gate) and is used afterwards without being set again
                    rp = draw(st.sampled_from(qregs))
                    if QL != "Q0" and draw(st.booleans()):
                        rp = "Q0"  # the first register a transpiler would look at when it needs a scratch register
                    others_r = [r for r in qregs if r != rp]
                    if len(others_r) >= 2:
                        pre = [f"set {rp} {draw(st.integers(0, nq - 1))}"]
                        x, y = draw(st.sampled_from([(1, 2), (2, 1)]))
                        ccgate = [f"set {others_r[0]} {x}", f"set {others_r[1]} {y}", f"{draw(st.sampled_from(['cnot', 'cphase']))} {others_r[0]} {others_r[1]}"]
                        if draw(st.booleans()):
                            inside = ccgate  # the gate is part of the conditional body
                        else:
                            pre = pre + ccgate  # the gate runs in any case; only the later `set` is conditional
                        if draw(st.booleans()):
                            # (often the electron's id: a register that "holds 0" only if this body ran)
                            inside = inside + [f"set {rp} {0 if draw(st.booleans()) else draw(st.integers(0, nq - 1))}"]
                        post = [f"{draw(st.sampled_from(GATES1))} {rp}"]
                        if draw(st.booleans()):
                            # another carbon-carbon gate after the conditional, before the kept register is read
                            x2, y2 = draw(st.sampled_from([(1, 2), (2, 1)]))
                            post = [f"set {others_r[0]} {x2}", f"set {others_r[1]} {y2}", f"{draw(st.sampled_from(['cnot', 'cphase']))} {others_r[0]} {others_r[1]}"] + post
                        info["cc"] = True
                        info["kept_across_if"] = True
                body_if = None
                if not keep and nq >= 3 and len(qregs) >= 3 and draw(st.integers(0, 1)) == 0:
                    # the exit label sits directly on a two-qubit gate: its registers are set before the branch and the skipped
                    # body (gates on another register) does not touch them
                    ra_, rb_, rc_ = qregs[0], qregs[1], qregs[2]
                    x, y = draw(st.sampled_from([(1, 2), (2, 1), (1, 2), (2, 1), (0, 1), (2, 0)]))
                    pre = [f"set {ra_} {x}", f"set {rb_} {y}"]
                    body_if = []
                    for _k in range(draw(st.integers(1, 2))):
                        body_if += [f"set {rc_} {draw(st.integers(0, nq - 1))}", f"{draw(st.sampled_from(GATES1))} {rc_}"]
                    post = [f"{draw(st.sampled_from(['cnot', 'cphase']))} {ra_} {rb_}"]
                    if x != 0 and y != 0:
                        info["cc"] = True
                    info["label_on_two_qubit_gate"] = True
                out += pre + [f"load R1 @0[{draw(st.integers(0, 5))}]", f"{cond} R1 {draw(st.integers(0, 2))} {lab}"] + inside + (body_if if body_if is not None else block(depth + 1)) + [f"{lab}:"] + post
            elif loop_regs:
                info["loops"] += 1
                r = loop_regs.pop()
                le, lx = new_label("LOOP"), new_label("LOOP_EXIT")
                n = draw(st.integers(0, 3))
                head, first = [], []
                if nq >= 3 and draw(st.integers(0, 1)) == 0 and len(qregs) >= 3:
                    # a qubit register written before the loop, read at the top of every iteration, and not mentioned again after a
                    # carbon-carbon gate further down the body
                    rp = "Q0" if QL != "Q0" and draw(st.booleans()) else draw(st.sampled_from(qregs))
                    oth = [q_ for q_ in qregs if q_ != rp]
                    x, y = draw(st.sampled_from([(1, 2), (2, 1)]))
                    head = [f"set {rp} {draw(st.integers(1, nq - 1))}"]
                    n = draw(st.integers(2, 3))  # the value has to survive into a second iteration
                    first = [f"{draw(st.sampled_from(GATES1))} {rp}", f"set {oth[0]} {x}", f"set {oth[1]} {y}", f"{draw(st.sampled_from(['cnot', 'cphase']))} {oth[0]} {oth[1]}"]
                    info["cc"] = True
                    info["kept_across_loop"] = True
                out += head + [f"set {r} 0", f"{le}:", f"beq {r} {n} {lx}"] + first + (block(depth + 1) if not first or draw(st.booleans()) else []) + [f"add {r} {r} 1", f"jmp {le}", f"{lx}:"]
                loop_regs.append(r)
            else:
                out += gate_lines()
        return out

    stress = nq >= 3 and draw(st.integers(0, 9)) == 0
    full16 = nq >= 3 and not stress and draw(st.integers(0, 11)) == 0
    if full16:
        # the program names every one of the 16 Q registers: nothing is left to borrow for a carbon-carbon gate, so the
        # transpiler may decline ("Could not find free register") but must not take a register that is in use
        body = [f"set Q{i} {draw(st.integers(0, nq - 1))}" for i in range(16)]
        ra, rb = draw(st.sampled_from([("Q3", "Q7"), ("Q15", "Q2"), ("Q4", "Q15"), ("Q0", "Q1")]))
        body += [f"set {ra} 1", f"set {rb} 2", f"{draw(st.sampled_from(['cnot', 'cphase']))} {ra} {rb}"]
        for r in ("Q15", "Q14", draw(st.sampled_from([f"Q{i}" for i in range(16)]))):
            body += [f"{draw(st.sampled_from(GATES1))} {r}"]
        info["cc"] = True
        info["full16"] = True
    elif nq >= 3 and len(qregs) >= 3 and draw(st.integers(0, 7)) == 0:
        # a conditional whose exit label sits directly on a carbon-carbon gate (registers set before the branch, the skipped
        # body works on a third register); the branch is taken in most of these programs
        ra_, rb_, rc_ = qregs[0], qregs[1], qregs[2]
        x, y = draw(st.sampled_from([(1, 2), (2, 1)]))
        cell = draw(st.integers(0, 5))
        lab = new_label("IF_EXIT")
        taken = draw(st.integers(0, 3)) > 0
        body = gate_lines() if draw(st.booleans()) else []
        for q_ in range(nq):
            # every qubit in a state that no single gate of the set leaves alone
            body += [f"set {rc_} {q_}", f"h {rc_}", f"t {rc_}"]
        body += [f"set {ra_} {x}", f"set {rb_} {y}", f"load R1 @0[{cell}]", f"{'beq' if taken else 'bne'} R1 {stored[cell]} {lab}"]
        for _k in range(draw(st.integers(1, 3))):
            body += [f"set {rc_} {draw(st.integers(0, nq - 1))}", f"{draw(st.sampled_from(GATES1))} {rc_}"]
        body += [f"{lab}:", f"{draw(st.sampled_from(['cnot', 'cphase']))} {ra_} {rb_}"] + (gate_lines() if draw(st.booleans()) else [])
        info["cc"] = True
        info["ifs"] += 1
        info["label_on_two_qubit_gate"] = True
    elif nq >= 3 and len(qregs) >= 3 and draw(st.integers(0, 9)) == 0:
        # a register names a carbon before a conditional; the (mostly skipped) body points it at the electron; after the
        # conditional comes a carbon-carbon gate on two other registers, then the first register is read without being set again
        ra_, rb_, rp_ = qregs[0], qregs[1], qregs[2]
        if QL != "Q0" and draw(st.booleans()):
            rp_ = "Q0"
        x, y = draw(st.sampled_from([(1, 2), (2, 1)]))
        cell = draw(st.integers(0, 5))
        lab = new_label("IF_EXIT")
        taken = draw(st.integers(0, 3)) > 0
        body = []
        for q_ in range(nq):
            body += [f"set {ra_} {q_}", f"h {ra_}", f"t {ra_}"]
        body += [f"set {rp_} {draw(st.integers(1, nq - 1))}", f"load R1 @0[{cell}]", f"{'beq' if taken else 'bne'} R1 {stored[cell]} {lab}",
                 f"set {rp_} 0", f"{draw(st.sampled_from(GATES1))} {rp_}", f"{lab}:",
                 f"set {ra_} {x}", f"set {rb_} {y}", f"{draw(st.sampled_from(['cnot', 'cphase']))} {ra_} {rb_}", f"{draw(st.sampled_from(['h', 'x', 'y', 't', 'k']))} {rp_}"]
        info["cc"] = True
        info["ifs"] += 1
        info["kept_across_if"] = True
        info["electron_id_only_in_skipped_body"] = True
    elif stress:
        # many carbon-carbon gates in one subroutine
        body = []
        kind2 = draw(st.sampled_from(["cnot", "cphase", "mixed"]))  # one gate kind throughout, or a mix
        for _ in range(draw(st.integers(15, 20))):
            a, b = draw(st.sampled_from([(1, 2), (2, 1)]))
            ra, rb = qregs[0], qregs[1]
            body += [f"set {ra} {a}", f"set {rb} {b}", f"{draw(st.sampled_from(['cnot', 'cphase'])) if kind2 == 'mixed' else kind2} {ra} {rb}"]
        if draw(st.booleans()):
            # ... followed by a conditional: its exit label lies several hundred NV instructions into the subroutine
            lab = new_label("IF_EXIT")
            cell = draw(st.integers(0, 5))
            body += [f"load R1 @0[{cell}]", f"{'beq' if draw(st.integers(0, 3)) > 0 else 'bne'} R1 {stored[cell]} {lab}", f"set {qregs[0]} {draw(st.integers(0, nq - 1))}", f"h {qregs[0]}",
                     f"{lab}:", f"set {qregs[1]} {draw(st.integers(0, nq - 1))}", f"{draw(st.sampled_from(['x', 'h', 'k']))} {qregs[1]}"]
            info["ifs"] += 1
            info["label_beyond_256"] = True
        info["cc"] = True
        info["stress"] = True
    elif split and draw(st.integers(0, 1)) == 0 and loop_regs:
        # loop whose entry label is the very first line of the subroutine (counter initialised by the previous subroutine)
        r = loop_regs.pop()
        prologue += f"set {r} 0\n"
        le, lx = new_label("LOOP"), new_label("LOOP_EXIT")
        body = [f"{le}:", f"beq {r} {draw(st.integers(1, 3))} {lx}"] + block(1) + [f"add {r} {r} 1", f"jmp {le}", f"{lx}:"] + block(1)
        info["loops"] += 1
        info["label_at_0"] = True
    else:
        body = block(0)
    lines += body
    if body and body[-1].endswith(":"):
        info["end_label"] = True
    elif draw(st.integers(0, 2)) == 0:
        # explicit branch to the very end
        lab = new_label("END")
        lines += [f"load R1 @0[0]", f"beq R1 {draw(st.integers(0, 2))} {lab}"] + gate_lines() + [f"{lab}:"]
        info["end_label"] = True
    outcomes = draw(st.lists(st.integers(0, 1), min_size=0, max_size=12))
    return {"kind": "idiom", "text": "\n".join(lines) + "\n", "prologue": prologue, "outcomes": outcomes, "nq": nq, "debug": draw(st.integers(0, 3)) > 0 if info.get("label_on_two_qubit_gate") else draw(st.booleans()), "info": info}


class Declined(Exception):
    """the transpiler refused a program it has no resources for (not a violation)"""


# ------------------------------------------------------------------ execution


def new_executor(flavour=None):
    from vlib import sim

    ex = sim.StateVectorExecutor("node")
    ex.init_new_application(0, 5)
    ex.step_bound = 20000
    return ex


def exec_sub(ex, sub):
    start = len(ex.executed)
    for _ in ex.execute_subroutine(sub):
        pass
    return ex.executed[start:]


NON_GATE = {"qalloc", "qfree", "init", "meas", "meas_basis", "store", "load", "add", "sub", "addm", "subm", "ret_reg", "ret_arr", "array", "undef", "lea", "jmp", "beq", "bne", "blt", "bge", "bez", "bnz"}


def regs_of(ex) -> Dict[str, int]:
    from vlib import sim

    return sim.read_registers(ex, 0)


def compare(case, subs_vanilla, debug: bool) -> Dict[str, Any]:
    from netqasm.lang.instr.flavour import NVFlavour
    from netqasm.lang.parsing import deserialize
    from netqasm.sdk.shared_memory import SharedMemoryManager
    from netqasm.sdk.transpile import NVSubroutineTranspiler
    from vlib import sim

    sim.reset_globals()
    exA = new_executor()
    exA.outcomes = list(case["outcomes"])
    SharedMemoryManager.reset_memories()
    exB = new_executor()
    exB.outcomes = list(case["outcomes"])
    info = {"taken_after_gate": False}
    for k, sub in enumerate(subs_vanilla):
        orig = copy.deepcopy(sub)
        try:
            tr = NVSubroutineTranspiler(copy.deepcopy(sub), debug=debug).transpile()
        except Exception as e:
            import traceback

            fr = traceback.extract_tb(e.__traceback__)[-1]
            if case.get("info", {}).get("full16") and isinstance(e, RuntimeError) and "free register" in str(e):
                raise Declined("no Q register left to borrow")
            raise Failure(f"transpile-raises:{type(e).__name__}:{fr.name}", case, f"transpiling subroutine {k} raised {type(e).__name__}: {(str(e).splitlines() or [''])[0][:160]}")
        # what a controller receives
        try:
            tr_wire = deserialize(bytes(tr), flavour=NVFlavour())
        except Exception as e:
            raise Failure(f"transpiled-not-encodable:{type(e).__name__}", case, f"transpiled subroutine {k} cannot be serialised/deserialised as NV flavour: {type(e).__name__}: {(str(e).splitlines() or [''])[0][:160]}")
        named = set()
        for ins in orig.instructions:
            for o in ins.operands:
                if type(o).__name__ == "Register":
                    named.add(str(o))
        errA = errB = None
        try:
            seqA = exec_sub(exA, orig)
        except Exception as e:
            errA = e
            seqA = []
        try:
            seqB = exec_sub(exB, tr_wire)
        except Exception as e:
            errB = e
            seqB = []
        if errA is not None and errB is not None:
            return info  # both fault (e.g. generated program measures a freed qubit): not judged further
        if (errA is None) != (errB is None):
            e = errA or errB
            side = "original" if errA else "transpiled"
            msg = (str(e).splitlines() or [""])[0][:200]
            kind = "unallocated" if "not allocated" in msg else type(e).__name__
            raise Failure(f"fault-one-side:{kind}:{'debug' if debug else 'nodebug'}", case, f"subroutine {k}: only the {side} program faults: {type(e).__name__}: {msg}")
        a_seq = [m for m in seqA if m in NON_GATE]
        b_seq = [m for m in seqB if m in NON_GATE]
        if a_seq != b_seq:
            n = next((i for i, (x, y) in enumerate(zip(a_seq, b_seq)) if x != y), min(len(a_seq), len(b_seq)))
            raise Failure(f"nongate-order:{'debug' if debug else 'nodebug'}", case, f"subroutine {k}: executed non-gate instructions diverge at position {n}: original {a_seq[max(0,n-2):n+3]} vs transpiled {b_seq[max(0,n-2):n+3]}")
        arrA = {a: list(v) for a, v in exA._app_arrays[0]._arrays.items()}
        arrB = {a: list(v) for a, v in exB._app_arrays[0]._arrays.items()}
        if arrA != arrB:
            raise Failure(f"arrays:{'debug' if debug else 'nodebug'}", case, f"subroutine {k}: arrays differ: original {arrA} vs transpiled {arrB}")
        ra, rb = regs_of(exA), regs_of(exB)
        for r in sorted(named | {x for x in ra if x[0] in "RM"}):
            if r[0] == "Q":
                continue
            if ra.get(r) != rb.get(r):
                raise Failure(f"register:{'debug' if debug else 'nodebug'}", case, f"subroutine {k}: register {r} is {ra.get(r)} after the original and {rb.get(r)} after the transpiled program")
        if exA._qubit_unit_modules[0] != exB._qubit_unit_modules[0]:
            raise Failure("allocated-set", case, f"subroutine {k}: unit modules differ: {exA._qubit_unit_modules[0]} vs {exB._qubit_unit_modules[0]}")
        la, lb = sorted(exA.sv.labels), sorted(exB.sv.labels)
        if la != lb:
            raise Failure("qubit-set", case, f"subroutine {k}: qubits in memory differ: {la} vs {lb}")
        if la:
            va, vb = exA.sv.ordered(la), exB.sv.ordered(lb)
            if not qm.vec_equal_up_to_phase(va, vb, 1e-7):
                raise Failure(f"state:{'debug' if debug else 'nodebug'}", case, f"subroutine {k}: final quantum states differ (overlap {abs(np.vdot(va, vb)):.4f})")
        bad = [(c, t) for c, t in exB.crot_controls if c != 0 or t == 0]
        if bad:
            raise Failure("crot-control-not-electron", case, f"subroutine {k}: the transpiled program executed controlled rotations with (control, target) virtual ids {bad[:3]}; NV controlled rotations are electron-controlled (virtual id 0)")
        if exA.outcome_log != exB.outcome_log:
            raise Failure("outcomes", case, f"measurement outcomes differ: {exA.outcome_log} vs {exB.outcome_log}")
    return info


def subs_from_hostprog(prog):
    """compile the host program with the real Builder (no compiler) and return the vanilla subroutines it sent"""
    from vlib import sim

    ctrl, conn = sim.fresh(sim.TraceExecutor, max_qubits=5)
    ctrl._executor.outcomes = list(prog["outcomes"])
    ctrl._executor.step_bound = 100000
    run = hp.SdkRun(conn, lambda k: None)
    run.run_block(prog["stmts"])
    return conn.sent_subroutines()


def check(case) -> Dict[str, Any]:
    from netqasm.lang.parsing.text import parse_text_subroutine

    if case["kind"] == "idiom":
        subs = [parse_text_subroutine(case["text"])]
        if case.get("prologue"):
            subs.insert(0, parse_text_subroutine(case["prologue"]))
        return compare(case, subs, case["debug"])
    prog = {k: case[k] for k in ("stmts", "outcomes", "qubits")}
    hp.run_direct(prog, prog["outcomes"])  # domain check
    try:
        subs = subs_from_hostprog(prog)
    except Exception:
        raise hp.OutOfDomainProgram("builder/controller problem (C05's subject)")
    return compare(case, subs, case["debug"])


def shard(ctx: Ctx) -> None:
    stt = ctx.stats
    n = 250 if ctx.tier == "quick" else 5000

    def body_idiom(case):
        try:
            check(case)
        except Declined as d:
            stt.rejected["declined:" + str(d)] += 1
            stt.evaluations += 1
            return
        i = case["info"]
        nt = i["cc"] or i["end_label"] or i["ifs"] > 0
        labels = ["idiom", f"nq:{case['nq']}", "debug" if case["debug"] else "nodebug"] + [k for k in ("cc", "end_label", "stress", "label_at_0", "load_single", "full16", "sdk_mov", "same_index_classical_set", "realloc", "kept_across_if", "kept_across_loop", "label_on_two_qubit_gate", "electron_id_only_in_skipped_body", "label_beyond_256") if i.get(k)] + (["loop"] if i["loops"] else []) + (["if"] if i["ifs"] else [])
        stt.case(str(case.get("prologue")) + case["text"] + str(case["outcomes"]) + str(case["debug"]), nt, labels, sample={"text": case["text"], "debug": case["debug"]} if len(case["text"]) < 700 else None)

    allow = KF_LOAD not in ctx.open_findings
    if not allow:
        stt.notes.append("open finding q-reg-from-load: two-qubit gates whose Q operand was last written by `load` are not generated")
    ctx.search(st_idiom(allow), body_idiom, n, name="c08-idiom")

    opts = {"max_depth": 2, "max_stmts": 14, "max_top": 6, "qubits": 3, "regs_cross_flush": False, "allow_newreg": False}

    def body_host(t):
        prog, debug = t
        case = dict(prog, kind="host", debug=debug)
        try:
            check(case)
        except hp.OutOfDomainProgram as e:
            stt.rejected["out-of-domain"] += 1
            stt.evaluations += 1
            return
        has_gate_in_ctrl = "gate" in str([s for s in prog["stmts"] if s[0] in ("if", "loop", "foreach", "until")])
        stt.case([prog["stmts"], prog["outcomes"], debug], has_gate_in_ctrl, ["host", "debug" if debug else "nodebug"] + (["gate-in-control-flow"] if has_gate_in_ctrl else []))

    ctx.search(st.tuples(hp.st_program(opts), st.booleans()), body_host, n // 2, name="c08-host", salt=1)


def replay(case):
    try:
        check(case)
    except (hp.OutOfDomainProgram, Declined):
        return None
    except Failure as f:
        return f
    return None
