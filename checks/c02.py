"""C02 — wire format follows the fixed 7-byte NetQASM command layout.

Oracle: vlib.refenc (struct-based, written from the format description + frozen opcode table).
Two directions: (A) the repo's encoder produces exactly the reference bytes; (B) reference-built
bytes decode, with the repo's decoder, to the intended instruction (independent of the repo's
encoder, so a consistent encoder+decoder change is still caught by A and a decoder-only change
by B).
"""
from __future__ import annotations

from typing import Any, List

from hypothesis import strategies as st

from vlib import gen_instr as g
from vlib import refenc
from vlib.runner import Ctx, Failure

LEVEL = "exploration"
RULE = (
    "every instruction class of every flavour (introspected) x field-distinguishing valuations "
    "(all fields pairwise different; walking one over every bit of every field) enumerated completely, "
    "plus header walking ones, plus Hypothesis-random valuations and whole subroutines; a case is "
    "non-trivial when it distinguishes a field/bit (all enumerated ones) or has a boundary operand / >=2 "
    "operand fields (random ones); distinct by (flavour, class, valuation)"
)
ASSUMPTIONS = [
    "the frozen opcode/operand-order table in vlib/refenc.py is the published table (copied from the pinned tree; "
    "mov carries opcode 42, see DESIGN 3.1)",
    "classes not in the frozen table are counted as 'unlisted' and skipped",
]
SHARDS = {"quick": 1, "thorough": 16}


def _deser(fname: str):
    from netqasm.lang.parsing.binary import Deserializer

    return Deserializer(g.FLAVOURS[fname]())


def check_instr(fname: str, cls, vals: List[Any], deser=None) -> None:
    case = {"kind": "instr", "flavour": fname, "cls": cls.__name__, "mnemonic": cls.mnemonic, "vals": vals}
    table = refenc.TABLE[fname]
    if cls.mnemonic not in table:
        return
    opcode, kinds = table[cls.mnemonic]
    shape_letters = "".join(refenc.KIND_LETTER[k] for _, k in g.shape_of(cls))
    if shape_letters != kinds:
        raise Failure(f"shape:{fname}:{cls.mnemonic}", case, f"operand shape {shape_letters} != published {kinds}")
    if cls.id != opcode:
        raise Failure(f"opcode:{fname}:{cls.mnemonic}", case, f"opcode {cls.id} != published {opcode}")
    instr = g.build(cls, vals)
    ref = refenc.encode_instr(fname, cls.mnemonic, vals)
    # the construction route the assembler and Subroutine.instantiate use: operands in declared order
    # (immediates as plain ints, as the text parser and the Builder pass them)
    try:
        via_ops = cls.from_operands([o.value if type(o).__name__ == "Immediate" else o for o in instr.operands])
        via_bytes = bytes(via_ops.serialize())
    except Exception as e:
        raise Failure(f"from_operands:{fname}:{cls.mnemonic}", case, f"{cls.__name__}.from_operands raised {type(e).__name__}: {e}")
    if via_bytes != ref:
        raise Failure(
            f"from_operands:{fname}:{cls.mnemonic}", case, f"{cls.__name__}.from_operands({[str(o) for o in instr.operands]}) encodes to {via_bytes.hex()}, reference {ref.hex()}: operands not in declared order"
        )
    try:
        got = bytes(instr.serialize())
    except Exception as e:
        raise Failure(f"enc-raises:{fname}:{cls.mnemonic}", case, f"encoding the in-range instruction {instr} raised {type(e).__name__}: {e}")
    if len(got) != 7:
        raise Failure(f"len:{fname}:{cls.mnemonic}", case, f"encodes to {len(got)} bytes")
    if got != ref:
        raise Failure(
            f"enc:{fname}:{cls.mnemonic}", case, f"encoder bytes {got.hex()} != reference {ref.hex()} for {instr}"
        )
    deser = deser or _deser(fname)
    try:
        back = deser.deserialize_command(ref)
    except Exception as e:
        raise Failure(f"dec:{fname}:{cls.mnemonic}", case, f"decoder raised {type(e).__name__}: {e} on {ref.hex()}")
    if type(back) is not cls or back != instr:
        raise Failure(f"dec:{fname}:{cls.mnemonic}", case, f"reference bytes {ref.hex()} of {instr} decode as {back}")


def check_header(version, app_id) -> None:
    from netqasm.lang.parsing import deserialize
    from netqasm.lang.subroutine import Subroutine

    case = {"kind": "header", "version": list(version), "app_id": app_id}
    s = Subroutine(instructions=[], netqasm_version=tuple(version), app_id=app_id)
    try:
        got = bytes(s)
    except Exception as e:
        raise Failure("header:enc-raises", case, f"encoding an in-range header raised {type(e).__name__}: {e}")
    ref = refenc.encode_header(version, app_id)
    if got != ref:
        raise Failure("header:enc", case, f"header bytes {got.hex()} != reference {ref.hex()}")
    back = deserialize(ref)
    if tuple(back.netqasm_version) != tuple(version) or back.app_id != app_id or back.instructions != []:
        raise Failure("header:dec", case, f"reference header decodes as {back.netqasm_version} {back.app_id}")
    # the header of an object that was already encoded once follows later changes of its app id (setter and instantiate)
    for how, other in (("setter", (app_id * 7 + 1) % 65536), ("instantiate", (app_id * 7 + 1) % 65536), ("setter", 0 if app_id else 9), ("instantiate", 0 if app_id else 9)):
        s2 = Subroutine(instructions=[], netqasm_version=tuple(version), app_id=app_id)
        bytes(s2)
        try:
            if how == "setter":
                s2.app_id = other
            else:
                s2.instantiate(other, {})
            got2 = bytes(s2)
        except Exception as e:
            raise Failure(f"header:re-encode-raises:{how}", case, f"{type(e).__name__}: {e}")
        ref2 = refenc.encode_header(version, other)
        if got2 != ref2:
            raise Failure(f"header:re-encode:{how}", case, f"encoded, app id changed to {other} via {how}, encoded again: {got2.hex()} != reference {ref2.hex()}")


def check_subroutine(j) -> None:
    """whole subroutine = header + concatenation of 7-byte commands"""
    fname = j["flavour"]
    table = refenc.TABLE[fname]
    if any(m not in table for _c, m, _v in j["instrs"]):
        return
    sub = g.build_subroutine(j)
    try:
        got = bytes(sub)
    except Exception as e:
        raise Failure("sub:enc-raises", {"kind": "sub", **j}, f"encoding an in-range subroutine raised {type(e).__name__}: {e}")
    ref = refenc.encode_subroutine(fname, j["version"], j["app_id"], [(m, v) for _c, m, v in j["instrs"]])
    case = {"kind": "sub", **j}
    if got != ref:
        raise Failure("sub:enc", case, f"subroutine bytes differ from reference ({got.hex()} vs {ref.hex()})")
    from netqasm.lang.parsing import deserialize

    back = deserialize(ref, flavour=g.FLAVOURS[fname]())
    if back.instructions != sub.instructions or [type(i) for i in back.instructions] != [
        type(i) for i in sub.instructions
    ]:
        raise Failure("sub:dec", case, "reference subroutine bytes decode to a different instruction list")


# ------------------------------------------------------------------ enumerated valuations

_ZERO = {
    "reg": "R0",
    "u8": 0,
    "i32": 0,
    "addr": {"addr": 0},
    "entry": {"addr": 0, "idx": "R0"},
    "slice": {"addr": 0, "start": "R0", "stop": "R0"},
}


def check_template(case) -> None:
    from netqasm.lang.encoding import RegisterName
    from netqasm.lang.operand import Immediate, Register, Template
    from netqasm.lang.subroutine import Subroutine

    cls = g.class_by_name(case["flavour"], case["cls"])
    v, pos = case["value"], case["pos"]
    reg = Register(RegisterName.Q, 3)
    ops = [Immediate(9), Immediate(4)]
    ops[pos] = Template("t")
    sub = Subroutine(instructions=[cls(reg=reg, imm0=ops[0], imm1=ops[1])], app_id=0)
    sub.instantiate(5, {"t": v})
    ops[pos] = Immediate(v)
    want = Subroutine(instructions=[cls(reg=reg, imm0=ops[0], imm1=ops[1])], app_id=5)
    try:
        got = bytes(sub)
    except Exception as e:
        raise Failure(f"template:{case['flavour']}:{cls.mnemonic}", case, f"{cls.mnemonic} with operand {pos} instantiated to {v} does not encode: {type(e).__name__}: {e}")
    if got != bytes(want):
        raise Failure(f"template:{case['flavour']}:{cls.mnemonic}", case, f"{cls.mnemonic} with operand {pos} instantiated to {v} encodes to {got.hex()}, built directly {bytes(want).hex()}")


def _bit_i32(b: int) -> int:
    return -(2**31) if b == 31 else 1 << b


def _reg_bits() -> List[str]:
    return ["C0", "Q0", "R1", "R2", "R4", "R8"]


def walking(kind: str) -> List[Any]:
    if kind == "reg":
        return _reg_bits()
    if kind == "u8":
        return [1 << b for b in range(8)]
    if kind == "i32":
        return [_bit_i32(b) for b in range(32)]
    if kind == "addr":
        return [{"addr": _bit_i32(b)} for b in range(32)]
    if kind == "entry":
        return [{"addr": _bit_i32(b), "idx": "R0"} for b in range(32)] + [{"addr": 0, "idx": r} for r in _reg_bits()]
    if kind == "slice":
        return (
            [{"addr": _bit_i32(b), "start": "R0", "stop": "R0"} for b in range(32)]
            + [{"addr": 0, "start": r, "stop": "R0"} for r in _reg_bits()]
            + [{"addr": 0, "start": "R0", "stop": r} for r in _reg_bits()]
        )
    raise ValueError(kind)


_DIST_REGS = ["C1", "Q2", "M3", "R4", "C5", "Q6"]
_DIST_U8 = [17, 34, 68, 136, 51]
_DIST_I32 = [0x01020304, -0x05060708, 0x11223344]


def all_distinct(shape) -> List[Any]:
    regs = iter(_DIST_REGS)
    u8s = iter(_DIST_U8)
    i32s = iter(_DIST_I32)
    out = []
    for _n, k in shape:
        if k == "reg":
            out.append(next(regs))
        elif k == "u8":
            out.append(next(u8s))
        elif k == "i32":
            out.append(next(i32s))
        elif k == "addr":
            out.append({"addr": next(i32s)})
        elif k == "entry":
            out.append({"addr": next(i32s), "idx": next(regs)})
        elif k == "slice":
            out.append({"addr": next(i32s), "start": next(regs), "stop": next(regs)})
    return out


def enumerated_cases(fname: str):
    for cls in g.flavour_classes(fname):
        shape = g.shape_of(cls)
        yield cls, all_distinct(shape)
        yield cls, [_ZERO[k] for _n, k in shape]
        for pos, (_n, k) in enumerate(shape):
            for v in walking(k):
                vals = [_ZERO[kk] for _nn, kk in shape]
                vals[pos] = v
                yield cls, vals


def shard(ctx: Ctx) -> None:
    stt = ctx.stats
    desers = {f: _deser(f) for f in g.FLAVOURS}
    if ctx.shard == 0:
        n_enum = 0
        for fname in g.FLAVOURS:
            for cls, vals in enumerated_cases(fname):
                if cls.mnemonic not in refenc.TABLE[fname]:
                    stt.labels["unlisted:" + cls.mnemonic] += 1
                    continue
                n_enum += 1
                ctx.attempt({"kind": "instr", "flavour": fname, "cls": cls.__name__, "vals": vals}, check_instr, fname, cls, vals, desers[fname])
                stt.case(
                    [fname, cls.__name__, vals],
                    True,
                    [f"enum:{fname}"],
                    sample={"flavour": fname, "instr": [cls.mnemonic, vals]},
                )
            # every published mnemonic must still exist
            have = {c.mnemonic for c in g.flavour_classes(fname)}
            for m in refenc.TABLE[fname]:
                if m not in have:
                    ctx.fail(Failure(f"missing:{fname}:{m}", {"kind": "missing", "flavour": fname, "mnemonic": m}, f"published instruction {m} no longer in flavour {fname}"))
        stt.exhaustive_domains["field-distinguishing valuations (all classes x all fields x all bits)"] = n_enum
        n_h = 0
        for b in range(8):
            for v in ([1 << b, 0], [0, 1 << b]):
                _try(ctx, check_header, v, 0)
                stt.case(["hdr", v, 0], True, ["enum:header"])
                n_h += 1
        for b in range(16):
            _try(ctx, check_header, [0, 0], 1 << b)
            stt.case(["hdr", [0, 0], 1 << b], True, ["enum:header"])
            n_h += 1
        _try(ctx, check_header, [0x12, 0x34], 0x5678)
        stt.case(["hdr", [0x12, 0x34], 0x5678], True, ["enum:header"], sample={"header": [[0x12, 0x34], 0x5678]})
        stt.exhaustive_domains["header walking ones"] = n_h + 1

        # template operands filled in by Subroutine.instantiate (0 is a value like any other): same bytes as the instruction built with the value
        from netqasm.lang.instr import core

        for fname in g.FLAVOURS:
            for cls in g.flavour_classes(fname):
                if not issubclass(cls, core.RotationInstruction):
                    continue
                for v in (0, 1, 17, 255):
                    for pos in (0, 1):
                        c_ = {"kind": "template", "flavour": fname, "cls": cls.__name__, "value": v, "pos": pos}
                        ctx.attempt(c_, check_template, c_)
                        stt.case(["template", fname, cls.__name__, v, pos], True, [f"enum:{fname}", "template"])
        # long subroutines (beyond 1000 and beyond 4096 instructions): every class of the flavour with pairwise distinct operands, repeated
        for fname in g.FLAVOURS:
            base = [[cls.__name__, cls.mnemonic, all_distinct(g.shape_of(cls))] for cls in g.flavour_classes(fname) if cls.mnemonic in refenc.TABLE[fname]]
            for n_long in (1001, 4100):
                j_long = {"flavour": fname, "app_id": 3, "version": [0, 10], "instrs": (base * (n_long // len(base) + 1))[:n_long]}
                ctx.attempt({"kind": "sub", **j_long}, check_subroutine, j_long)
                stt.case(["long", fname, n_long], True, [f"sub:{fname}", "sub:long"])

    n_rand = 3000 if ctx.tier == "quick" else 30000
    n_sub = 300 if ctx.tier == "quick" else 2000
    for fi, fname in enumerate(g.FLAVOURS):

        def body(j, fname=fname):
            clsname, mn, vals = j
            cls = g.class_by_name(fname, clsname)
            shape = g.shape_of(cls)
            nt = len(shape) >= 2 or any(g.boundary_hit(k, v) for (_n, k), v in zip(shape, vals))
            stt.case([fname, clsname, vals], nt, [f"rand:{fname}"], sample={"flavour": fname, "instr": [mn, vals]})
            check_instr(fname, cls, vals, desers[fname])

        ctx.search(g.st_instr(fname), body, n_rand // 3, name=f"c02-{fname}", salt=fi)

        def body_sub(j):
            kinds = {c for c, _m, _v in j["instrs"]}
            stt.case(["sub", j], len(kinds) >= 2, [f"sub:{j['flavour']}"])
            check_subroutine(j)

        ctx.search(g.st_subroutine(fname, 12), body_sub, n_sub // 3, name=f"c02-sub-{fname}", salt=10 + fi)


def _try(ctx, fn, *a):
    ctx.attempt({"kind": "header", "args": list(a)}, fn, *a)


def replay(case):
    try:
        if case["kind"] == "instr":
            cls = g.class_by_name(case["flavour"], case["cls"])
            check_instr(case["flavour"], cls, case["vals"])
        elif case["kind"] == "header":
            check_header(case["version"], case["app_id"])
        elif case["kind"] == "sub":
            check_subroutine({k: case[k] for k in ("flavour", "app_id", "version", "instrs")})
        elif case["kind"] == "template":
            check_template(case)
        elif case["kind"] == "missing":
            have = {c.mnemonic for c in g.flavour_classes(case["flavour"])}
            if case["mnemonic"] not in have:
                return Failure(f"missing:{case['flavour']}:{case['mnemonic']}", case, "still missing")
    except Failure as f:
        return f
    return None
