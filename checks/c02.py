"""C02 — wire format follows the fixed 7-byte NetQASM command layout.

Oracle: vlib.refenc (struct-based, written from the format description + frozen opcode table).
Two directions: (A) the repo's encoder produces exactly the reference bytes; (B) reference-built
bytes decode, with the repo's decoder, to the intended instruction (independent of the repo's
encoder, so a consistent encoder+decoder change is still caught by A and a decoder-only change
by B).
"""
from __future__ import annotations

import copy
import functools
from typing import Any, List

from hypothesis import strategies as st

from vlib import gen_instr as g
from vlib import refenc
from vlib.runner import Ctx, Failure, HarnessError

LEVEL = "exploration"
RULE = (
    "every instruction class of every flavour (introspected) x field-distinguishing valuations "
    "(all fields pairwise different; walking one over every bit of every field) enumerated completely, "
    "plus header walking ones, plus Hypothesis-random valuations and whole subroutines; a case is "
    "non-trivial when it distinguishes a field/bit (all enumerated ones) or has a boundary operand / >=2 "
    "operand fields (random ones); distinct by (flavour, class, valuation). Every decoded command is also edited in "
    "place by its receiver and the same bytes decoded again (must read as the first time). Histories on ONE "
    "subroutine object (built or decoded from reference bytes; byte-identical commands at several places): "
    "Hypothesis-random sequences of encode / operand edited in place (attribute or inner field of an array "
    "operand) / instruction replaced in the list / append / remove / app-id setter / instructions setter / "
    "instantiate / decode-the-first-bytes-again, each encoding compared with the reference encoding of a model "
    "kept beside the object; a history is non-trivial when it has an in-place edit"
)
ASSUMPTIONS = [
    "the frozen opcode/operand-order table in vlib/refenc.py is the published table (copied from the pinned tree; "
    "mov carries opcode 42, see DESIGN 3.1)",
    "classes not in the frozen table are counted as 'unlisted' and skipped",
]
SHARDS = {"quick": 1, "thorough": 16}


def _deser(fname: str):
    from netqasm.lang.parsing.binary import Deserializer

    return Deserializer(g.FLAVOURS[fname]())


def check_instr(fname: str, cls, vals: List[Any], deser=None) -> None:
    case = {"kind": "instr", "flavour": fname, "cls": cls.__name__, "mnemonic": cls.mnemonic, "vals": vals}
    table = refenc.TABLE[fname]
    if cls.mnemonic not in table:
        return
    opcode, kinds = table[cls.mnemonic]
    shape_letters = "".join(refenc.KIND_LETTER[k] for _, k in g.shape_of(cls))
    if shape_letters != kinds:
        raise Failure(f"shape:{fname}:{cls.mnemonic}", case, f"operand shape {shape_letters} != published {kinds}")
    if cls.id != opcode:
        raise Failure(f"opcode:{fname}:{cls.mnemonic}", case, f"opcode {cls.id} != published {opcode}")
    instr = g.build(cls, vals)
    ref = refenc.encode_instr(fname, cls.mnemonic, vals)
    # the construction route the assembler and Subroutine.instantiate use: operands in declared order
    # (immediates as plain ints, as the text parser and the Builder pass them)
    try:
        via_ops = cls.from_operands([o.value if type(o).__name__ == "Immediate" else o for o in instr.operands])
        via_bytes = bytes(via_ops.serialize())
    except Exception as e:
        raise Failure(f"from_operands:{fname}:{cls.mnemonic}", case, f"{cls.__name__}.from_operands raised {type(e).__name__}: {e}")
    if via_bytes != ref:
        raise Failure(
            f"from_operands:{fname}:{cls.mnemonic}", case, f"{cls.__name__}.from_operands({[str(o) for o in instr.operands]}) encodes to {via_bytes.hex()}, reference {ref.hex()}: operands not in declared order"
        )
    try:
        got = bytes(instr.serialize())
    except Exception as e:
        raise Failure(f"enc-raises:{fname}:{cls.mnemonic}", case, f"encoding the in-range instruction {instr} raised {type(e).__name__}: {e}")
    if len(got) != 7:
        raise Failure(f"len:{fname}:{cls.mnemonic}", case, f"encodes to {len(got)} bytes")
    if got != ref:
        raise Failure(
            f"enc:{fname}:{cls.mnemonic}", case, f"encoder bytes {got.hex()} != reference {ref.hex()} for {instr}"
        )
    deser = deser or _deser(fname)
    try:
        back = deser.deserialize_command(ref)
    except Exception as e:
        raise Failure(f"dec:{fname}:{cls.mnemonic}", case, f"decoder raised {type(e).__name__}: {e} on {ref.hex()}")
    if type(back) is not cls or back != instr:
        raise Failure(f"dec:{fname}:{cls.mnemonic}", case, f"reference bytes {ref.hex()} of {instr} decode as {back}")
    # the receiver edits the decoded command in place (every operand set to another value, as compiler passes do);
    # the same bytes decoded again must read as the first time: a decoding depends on the bytes alone
    shape = g.shape_of(cls)
    if shape:
        for (name, kind), v, alt in zip(shape, vals, all_distinct(shape)):
            setattr(back, name, g.operand_from_json(kind, alt if alt != v else _ZERO[kind]))
        try:
            again = deser.deserialize_command(ref)
        except Exception as e:
            raise Failure(f"dec-again:{fname}", case, f"decoder raised {type(e).__name__}: {e} on the second decoding of {ref.hex()}")
        if type(again) is not cls or again != instr:
            raise Failure(
                f"dec-again:{fname}", case, f"reference bytes {ref.hex()} of {instr} were decoded, the decoded object was edited in place to {back}, "
                f"and the same bytes then decode as {again}"
            )


def check_header(version, app_id) -> None:
    from netqasm.lang.parsing import deserialize
    from netqasm.lang.subroutine import Subroutine

    case = {"kind": "header", "version": list(version), "app_id": app_id}
    s = Subroutine(instructions=[], netqasm_version=tuple(version), app_id=app_id)
    try:
        got = bytes(s)
    except Exception as e:
        raise Failure("header:enc-raises", case, f"encoding an in-range header raised {type(e).__name__}: {e}")
    ref = refenc.encode_header(version, app_id)
    if got != ref:
        raise Failure("header:enc", case, f"header bytes {got.hex()} != reference {ref.hex()}")
    back = deserialize(ref)
    if tuple(back.netqasm_version) != tuple(version) or back.app_id != app_id or back.instructions != []:
        raise Failure("header:dec", case, f"reference header decodes as {back.netqasm_version} {back.app_id}")
    # the header of an object that was already encoded once follows later changes of its app id (setter and instantiate)
    for how, other in (("setter", (app_id * 7 + 1) % 65536), ("instantiate", (app_id * 7 + 1) % 65536), ("setter", 0 if app_id else 9), ("instantiate", 0 if app_id else 9)):
        s2 = Subroutine(instructions=[], netqasm_version=tuple(version), app_id=app_id)
        bytes(s2)
        try:
            if how == "setter":
                s2.app_id = other
            else:
                s2.instantiate(other, {})
            got2 = bytes(s2)
        except Exception as e:
            raise Failure(f"header:re-encode-raises:{how}", case, f"{type(e).__name__}: {e}")
        ref2 = refenc.encode_header(version, other)
        if got2 != ref2:
            raise Failure(f"header:re-encode:{how}", case, f"encoded, app id changed to {other} via {how}, encoded again: {got2.hex()} != reference {ref2.hex()}")


def check_subroutine(j) -> None:
    """whole subroutine = header + concatenation of 7-byte commands"""
    fname = j["flavour"]
    table = refenc.TABLE[fname]
    if any(m not in table for _c, m, _v in j["instrs"]):
        return
    sub = g.build_subroutine(j)
    try:
        got = bytes(sub)
    except Exception as e:
        raise Failure("sub:enc-raises", {"kind": "sub", **j}, f"encoding an in-range subroutine raised {type(e).__name__}: {e}")
    ref = refenc.encode_subroutine(fname, j["version"], j["app_id"], [(m, v) for _c, m, v in j["instrs"]])
    case = {"kind": "sub", **j}
    if got != ref:
        raise Failure("sub:enc", case, f"subroutine bytes differ from reference ({got.hex()} vs {ref.hex()})")
    from netqasm.lang.parsing import deserialize

    back = deserialize(ref, flavour=g.FLAVOURS[fname]())
    if back.instructions != sub.instructions or [type(i) for i in back.instructions] != [
        type(i) for i in sub.instructions
    ]:
        raise Failure("sub:dec", case, "reference subroutine bytes decode to a different instruction list")


# ------------------------------------------------------------------ enumerated valuations

_ZERO = {
    "reg": "R0",
    "u8": 0,
    "i32": 0,
    "addr": {"addr": 0},
    "entry": {"addr": 0, "idx": "R0"},
    "slice": {"addr": 0, "start": "R0", "stop": "R0"},
}


def check_template(case) -> None:
    from netqasm.lang.encoding import RegisterName
    from netqasm.lang.operand import Immediate, Register, Template
    from netqasm.lang.subroutine import Subroutine

    cls = g.class_by_name(case["flavour"], case["cls"])
    v, pos = case["value"], case["pos"]
    reg = Register(RegisterName.Q, 3)
    ops = [Immediate(9), Immediate(4)]
    ops[pos] = Template("t")
    sub = Subroutine(instructions=[cls(reg=reg, imm0=ops[0], imm1=ops[1])], app_id=0)
    sub.instantiate(5, {"t": v})
    ops[pos] = Immediate(v)
    want = Subroutine(instructions=[cls(reg=reg, imm0=ops[0], imm1=ops[1])], app_id=5)
    try:
        got = bytes(sub)
    except Exception as e:
        raise Failure(f"template:{case['flavour']}:{cls.mnemonic}", case, f"{cls.mnemonic} with operand {pos} instantiated to {v} does not encode: {type(e).__name__}: {e}")
    if got != bytes(want):
        raise Failure(f"template:{case['flavour']}:{cls.mnemonic}", case, f"{cls.mnemonic} with operand {pos} instantiated to {v} encodes to {got.hex()}, built directly {bytes(want).hex()}")


def _bit_i32(b: int) -> int:
    return -(2**31) if b == 31 else 1 << b


def _reg_bits() -> List[str]:
    return ["C0", "Q0", "R1", "R2", "R4", "R8"]


def walking(kind: str) -> List[Any]:
    if kind == "reg":
        return _reg_bits()
    if kind == "u8":
        return [1 << b for b in range(8)]
    if kind == "i32":
        return [_bit_i32(b) for b in range(32)]
    if kind == "addr":
        return [{"addr": _bit_i32(b)} for b in range(32)]
    if kind == "entry":
        return [{"addr": _bit_i32(b), "idx": "R0"} for b in range(32)] + [{"addr": 0, "idx": r} for r in _reg_bits()]
    if kind == "slice":
        return (
            [{"addr": _bit_i32(b), "start": "R0", "stop": "R0"} for b in range(32)]
            + [{"addr": 0, "start": r, "stop": "R0"} for r in _reg_bits()]
            + [{"addr": 0, "start": "R0", "stop": r} for r in _reg_bits()]
        )
    raise ValueError(kind)


_DIST_REGS = ["C1", "Q2", "M3", "R4", "C5", "Q6"]
_DIST_U8 = [17, 34, 68, 136, 51]
_DIST_I32 = [0x01020304, -0x05060708, 0x11223344]


def all_distinct(shape) -> List[Any]:
    regs = iter(_DIST_REGS)
    u8s = iter(_DIST_U8)
    i32s = iter(_DIST_I32)
    out = []
    for _n, k in shape:
        if k == "reg":
            out.append(next(regs))
        elif k == "u8":
            out.append(next(u8s))
        elif k == "i32":
            out.append(next(i32s))
        elif k == "addr":
            out.append({"addr": next(i32s)})
        elif k == "entry":
            out.append({"addr": next(i32s), "idx": next(regs)})
        elif k == "slice":
            out.append({"addr": next(i32s), "start": next(regs), "stop": next(regs)})
    return out


def enumerated_cases(fname: str):
    for cls in g.flavour_classes(fname):
        shape = g.shape_of(cls)
        yield cls, all_distinct(shape)
        yield cls, [_ZERO[k] for _n, k in shape]
        for pos, (_n, k) in enumerate(shape):
            for v in walking(k):
                vals = [_ZERO[kk] for _nn, kk in shape]
                vals[pos] = v
                yield cls, vals

# ------------------------------------------------------------------ histories on one subroutine object

# what can happen to one Subroutine object between two encodings (weights by repetition)
_STEP_KINDS = [
    "encode", "encode", "encode", "encode", "encode",
    "set", "set", "set", "set",
    "replace", "replace",
    "append", "remove", "app_id", "reassign", "instantiate", "redecode",
]
_EDITS = ("set", "replace")


def _listed(fname: str):
    return [c for c in g.flavour_classes(fname) if c.mnemonic in refenc.TABLE[fname]]


@functools.lru_cache(maxsize=None)
def _st_listed_instr(fname: str):
    return st.one_of([g.st_instr_of(c) for c in _listed(fname)])


@st.composite
def st_history(draw, fname: str):
    """JSON script: a subroutine (with byte-identical commands at several places), how the object is obtained
    (built from operands / decoded from reference bytes) and a sequence of steps on that one object."""
    sti = _st_listed_instr(fname)
    instrs = draw(st.lists(sti, min_size=1, max_size=5))
    for k in draw(st.lists(st.integers(0, 4), max_size=3)):
        instrs.insert(draw(st.integers(0, len(instrs))), copy.deepcopy(instrs[k % len(instrs)]))
    model = copy.deepcopy(instrs)
    steps: List[List[Any]] = []
    for kind in draw(st.lists(st.sampled_from(_STEP_KINDS), min_size=1, max_size=8)):
        if kind in ("set", "replace", "remove") and not model:
            continue
        if kind == "set":
            i = draw(st.integers(0, len(model) - 1))
            shape = g.shape_of(g.class_by_name(fname, model[i][0]))
            if not shape:
                continue
            pos = draw(st.integers(0, len(shape) - 1))
            k_ = shape[pos][1]
            v = draw(g.st_operand(k_))
            inner = k_ in ("entry", "slice") and draw(st.booleans())
            step = ["set", i, pos, v, inner]
        elif kind == "replace":
            step = ["replace", draw(st.integers(0, len(model) - 1)), draw(sti)]
        elif kind == "append":
            step = ["append", draw(sti)]
        elif kind == "remove":
            step = ["remove", draw(st.integers(0, len(model) - 1))]
        elif kind in ("app_id", "instantiate"):
            step = [kind, draw(st.sampled_from([0, 1, 255, 256, 65535]) | st.integers(0, 65535))]
        else:
            step = [kind]
        _model_step(fname, model, step)
        steps.append(step)
    return {
        "kind": "history",
        "flavour": fname,
        "app_id": draw(st.sampled_from([0, 1, 255, 256, 65535]) | st.integers(0, 65535)),
        "version": list(draw(st.tuples(g.st_u8, g.st_u8))),
        "via": draw(st.sampled_from(["build", "decode"])),
        "instrs": instrs,
        "steps": steps,
    }


def _model_step(fname: str, model: List[List[Any]], step: List[Any]) -> None:
    """the effect of a step on the model (list of [class name, mnemonic, values]); the app id is tracked by the caller"""
    kind = step[0]
    if kind == "set":
        _k, i, pos, v, _inner = step
        vals = list(model[i][2])
        vals[pos] = copy.deepcopy(v)
        model[i] = [model[i][0], model[i][1], vals]
    elif kind == "replace":
        model[step[1]] = copy.deepcopy(step[2])
    elif kind == "append":
        model.append(copy.deepcopy(step[1]))
    elif kind == "remove":
        del model[step[1]]


def history_labels(j) -> List[str]:
    """non-triviality labels of a history, from the script alone"""
    fname = j["flavour"]
    labs = {f"hist:{fname}", f"hist:via-{j['via']}"}
    model = copy.deepcopy(j["instrs"])
    clean, pending, edited = False, False, False
    for step in list(j["steps"]) + [["encode"]]:
        kind = step[0]
        if kind == "encode":
            if pending:
                labs.add("hist:encode-edit-encode")
            clean, pending = True, False
        elif kind in _EDITS:
            edited = True
            pending = pending or clean
            i = step[1]
            if any(k != i and m[0] == model[i][0] and m[2] == model[i][2] for k, m in enumerate(model)):
                labs.add("hist:edit-of-a-command-present-twice")
            if kind == "set" and step[4]:
                labs.add("hist:edit-inside-array-operand")
        elif kind == "redecode":
            if edited:
                labs.add("hist:decode-again-after-edit")
        else:
            clean, pending = False, False
            labs.add("hist:" + kind)
        _model_step(fname, model, step)
    if edited:
        labs.add("hist:has-in-place-edit")
        if j["via"] == "decode":
            labs.add("hist:decode-again-after-edit")
    return sorted(labs)


def check_history(j) -> None:
    """One Subroutine object through a sequence of encodings and in-place changes: every encoding is the reference
    encoding of what the object holds at that moment (model kept beside it), an edit of one instruction leaves the
    others alone, and the bytes the history started from decode, at any later moment, as they did the first time."""
    from netqasm.lang import operand as op
    from netqasm.lang.parsing import deserialize

    fname, via = j["flavour"], j["via"]
    flav = g.FLAVOURS[fname]
    version, app_id = j["version"], j["app_id"]
    case = dict(j)
    model = copy.deepcopy(j["instrs"])

    def ref_of(mdl, aid):
        return refenc.encode_subroutine(fname, version, aid, [(m, v) for _c, m, v in mdl])

    ref0 = ref_of(model, app_id)
    first = [g.instr_from_json_cls(fname, c, v) for c, _m, v in model]
    if via == "decode":
        sub = deserialize(ref0, flavour=flav())
    else:
        sub = g.build_subroutine(j)
    done: List[str] = []

    def trail():
        return " > ".join(done) or "(nothing yet)"

    def expect_encoding():
        last = next((k for k in reversed(done) if k != "encode"), "start")
        try:
            got = bytes(sub)
        except Exception as e:
            raise Failure(f"history:enc-raises:{via}:after-{last}", case, f"after [{trail()}] encoding raised {type(e).__name__}: {e}")
        ref = ref_of(model, app_id)
        if got != ref:
            joined = refenc.encode_header(version, app_id) + b"".join(bytes(i.serialize()) for i in sub.instructions)
            n = max(len(got), len(ref))
            blocks = [b for b in range((n - 4 + 6) // 7 + 1) if got[max(0, 4 + 7 * (b - 1)) : 4 + 7 * b] != ref[max(0, 4 + 7 * (b - 1)) : 4 + 7 * b]]
            how = "the instructions encoded one by one give the reference bytes" if joined == ref else "the instructions encoded one by one differ from the reference as well"
            raise Failure(
                f"history:enc:{via}:after-{last}",
                case,
                f"subroutine obtained by '{via}', then [{trail()}], then encoded: blocks {blocks} (0 = header) differ from the reference encoding of its "
                f"current instructions ({got.hex()} vs {ref.hex()}); {how}",
            )

    def expect_others_untouched(i):
        for k, (_c, m, v) in enumerate(model):
            if k == i:
                continue
            if bytes(sub.instructions[k].serialize()) != refenc.encode_instr(fname, m, v):
                raise Failure(
                    f"history:edit-leaks:{via}", case, f"subroutine obtained by '{via}', then [{trail()}]: the edit of instruction {i} changed instruction {k} to {sub.instructions[k]}"
                )

    def expect_first_bytes_read_the_same():
        try:
            back = deserialize(ref0, flavour=flav())
        except Exception as e:
            raise Failure(f"history:dec-again:{via}", case, f"after [{trail()}] decoding the first bytes again raised {type(e).__name__}: {e}")
        if (
            back.instructions != first
            or [type(i) for i in back.instructions] != [type(i) for i in first]
            or tuple(back.netqasm_version) != tuple(version)
            or back.app_id != j["app_id"]
        ):
            bad = [k for k, (a, b) in enumerate(zip(back.instructions, first)) if a != b or type(a) is not type(b)]
            raise Failure(
                f"history:dec-again:{via}",
                case,
                f"subroutine obtained by '{via}', then [{trail()}], then the reference bytes of the initial subroutine ({ref0.hex()}) decoded again: "
                f"instructions {bad} read differently ({[str(back.instructions[k]) for k in bad[:3]]} instead of {[str(first[k]) for k in bad[:3]]})",
            )
        if bytes(back) != ref0:
            raise Failure(f"history:dec-again:{via}", case, f"after [{trail()}] the first bytes decoded again re-encode to {bytes(back).hex()} instead of {ref0.hex()}")

    for step in j["steps"]:
        kind = step[0]
        if kind == "encode":
            expect_encoding()
        elif kind == "set":
            _k, i, pos, v, inner = step
            name, k_ = g.shape_of(g.class_by_name(fname, model[i][0]))[pos]
            instr = sub.instructions[i]
            if inner:
                o = getattr(instr, name)
                o.address = op.Address(v["addr"])
                if k_ == "entry":
                    o.index = g.reg_from_str(v["idx"])
                else:
                    o.start = g.reg_from_str(v["start"])
                    o.stop = g.reg_from_str(v["stop"])
            else:
                setattr(instr, name, g.operand_from_json(k_, v))
        elif kind == "replace":
            sub.instructions[step[1]] = g.instr_from_json_cls(fname, step[2][0], step[2][2])
        elif kind == "append":
            sub.instructions.append(g.instr_from_json_cls(fname, step[1][0], step[1][2]))
        elif kind == "remove":
            del sub.instructions[step[1]]
        elif kind == "app_id":
            sub.app_id = app_id = step[1]
        elif kind == "reassign":
            sub.instructions = list(sub.instructions)
        elif kind == "instantiate":
            sub.instantiate(step[1], {})
            app_id = step[1]
        elif kind == "redecode":
            expect_first_bytes_read_the_same()
        else:
            raise HarnessError(f"unknown history step {step}")
        _model_step(fname, model, step)
        done.append(kind)
        if kind in _EDITS:
            expect_others_untouched(step[1])
    expect_encoding()
    expect_first_bytes_read_the_same()


def shard(ctx: Ctx) -> None:
    stt = ctx.stats
    desers = {f: _deser(f) for f in g.FLAVOURS}
    if ctx.shard == 0:
        n_enum = 0
        for fname in g.FLAVOURS:
            for cls, vals in enumerated_cases(fname):
                if cls.mnemonic not in refenc.TABLE[fname]:
                    stt.labels["unlisted:" + cls.mnemonic] += 1
                    continue
                n_enum += 1
                ctx.attempt({"kind": "instr", "flavour": fname, "cls": cls.__name__, "vals": vals}, check_instr, fname, cls, vals, desers[fname])
                stt.case(
                    [fname, cls.__name__, vals],
                    True,
                    [f"enum:{fname}"],
                    sample={"flavour": fname, "instr": [cls.mnemonic, vals]},
                )
            # every published mnemonic must still exist
            have = {c.mnemonic for c in g.flavour_classes(fname)}
            for m in refenc.TABLE[fname]:
                if m not in have:
                    ctx.fail(Failure(f"missing:{fname}:{m}", {"kind": "missing", "flavour": fname, "mnemonic": m}, f"published instruction {m} no longer in flavour {fname}"))
        stt.exhaustive_domains["field-distinguishing valuations (all classes x all fields x all bits)"] = n_enum
        n_h = 0
        for b in range(8):
            for v in ([1 << b, 0], [0, 1 << b]):
                _try(ctx, check_header, v, 0)
                stt.case(["hdr", v, 0], True, ["enum:header"])
                n_h += 1
        for b in range(16):
            _try(ctx, check_header, [0, 0], 1 << b)
            stt.case(["hdr", [0, 0], 1 << b], True, ["enum:header"])
            n_h += 1
        _try(ctx, check_header, [0x12, 0x34], 0x5678)
        stt.case(["hdr", [0x12, 0x34], 0x5678], True, ["enum:header"], sample={"header": [[0x12, 0x34], 0x5678]})
        stt.exhaustive_domains["header walking ones"] = n_h + 1

        # template operands filled in by Subroutine.instantiate (0 is a value like any other): same bytes as the instruction built with the value
        from netqasm.lang.instr import core

        for fname in g.FLAVOURS:
            for cls in g.flavour_classes(fname):
                if not issubclass(cls, core.RotationInstruction):
                    continue
                for v in (0, 1, 17, 255):
                    for pos in (0, 1):
                        c_ = {"kind": "template", "flavour": fname, "cls": cls.__name__, "value": v, "pos": pos}
                        ctx.attempt(c_, check_template, c_)
                        stt.case(["template", fname, cls.__name__, v, pos], True, [f"enum:{fname}", "template"])
        # long subroutines (beyond 1000 and beyond 4096 instructions): every class of the flavour with pairwise distinct operands, repeated
        for fname in g.FLAVOURS:
            base = [[cls.__name__, cls.mnemonic, all_distinct(g.shape_of(cls))] for cls in g.flavour_classes(fname) if cls.mnemonic in refenc.TABLE[fname]]
            for n_long in (1001, 4100):
                j_long = {"flavour": fname, "app_id": 3, "version": [0, 10], "instrs": (base * (n_long // len(base) + 1))[:n_long]}
                ctx.attempt({"kind": "sub", **j_long}, check_subroutine, j_long)
                stt.case(["long", fname, n_long], True, [f"sub:{fname}", "sub:long"])

    n_rand = 3000 if ctx.tier == "quick" else 30000
    n_sub = 300 if ctx.tier == "quick" else 2000
    n_hist = 600 if ctx.tier == "quick" else 6000
    for fi, fname in enumerate(g.FLAVOURS):

        def body(j, fname=fname):
            clsname, mn, vals = j
            cls = g.class_by_name(fname, clsname)
            shape = g.shape_of(cls)
            nt = len(shape) >= 2 or any(g.boundary_hit(k, v) for (_n, k), v in zip(shape, vals))
            stt.case([fname, clsname, vals], nt, [f"rand:{fname}"], sample={"flavour": fname, "instr": [mn, vals]})
            check_instr(fname, cls, vals, desers[fname])

        ctx.search(g.st_instr(fname), body, n_rand // 3, name=f"c02-{fname}", salt=fi)

        def body_sub(j):
            kinds = {c for c, _m, _v in j["instrs"]}
            stt.case(["sub", j], len(kinds) >= 2, [f"sub:{j['flavour']}"])
            check_subroutine(j)

        ctx.search(g.st_subroutine(fname, 12), body_sub, n_sub // 3, name=f"c02-sub-{fname}", salt=10 + fi)

        def body_hist(j):
            labs = history_labels(j)
            stt.case(["hist", j], "hist:has-in-place-edit" in labs, labs)
            check_history(j)

        ctx.search(st_history(fname), body_hist, n_hist // 3, name=f"c02-hist-{fname}", salt=20 + fi)


def _try(ctx, fn, *a):
    ctx.attempt({"kind": "header", "args": list(a)}, fn, *a)


def replay(case):
    try:
        if case["kind"] == "instr":
            cls = g.class_by_name(case["flavour"], case["cls"])
            check_instr(case["flavour"], cls, case["vals"])
        elif case["kind"] == "header":
            check_header(case["version"], case["app_id"])
        elif case["kind"] == "sub":
            check_subroutine({k: case[k] for k in ("flavour", "app_id", "version", "instrs")})
        elif case["kind"] == "template":
            check_template(case)
        elif case["kind"] == "history":
            check_history(case)
        elif case["kind"] == "missing":
            have = {c.mnemonic for c in g.flavour_classes(case["flavour"])}
            if case["mnemonic"] not in have:
                return Failure(f"missing:{case['flavour']}:{case['mnemonic']}", case, "still missing")
    except Failure as f:
        return f
    return None
