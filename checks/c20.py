"""C20 — toolbox circuits implement their documented operators (full SDK -> controller pipeline, state-vector back end)."""
from __future__ import annotations

import itertools
import math
from typing import Any, Dict, List

import numpy as np
from hypothesis import strategies as st

from vlib import quantum as qm
from vlib.runner import Ctx, Failure

LEVEL = "exploration"
RULE = (
    "toffoli_gate and t_inverse on Choi-state inputs (every data qubit maximally entangled with a harness reference qubit, so one "
    "run fixes the whole unitary) and on all computational basis states; set_qubit_state on Hypothesis-drawn (theta, phi); "
    "parity_meas for every Pauli string over I,X,Y,Z of length 1..3 with and without leading '-' (168) on basis states and "
    "Hypothesis-drawn random states, both outcomes forced; sessions of 1..4 toolbox calls on one connection (operands in any order out of 3..4 qubits, "
    "parity strings on subsets, flushes anywhere, all outcomes read after the last flush) against the documented operators applied in order; "
    "set_qubit_state angles also negative and beyond 2pi, and given as int / numpy integer / numpy float instead of float (whole numbers of radians); "
    "parity_meas with the caller's qubit list in any order of virtual ids and the call repeated on the same list object (same outcome, state unchanged); "
    "sessions in which several parity_meas calls share one caller-owned list object; flavours vanilla and NV-transpiled.  Non-trivial = every case "
    "except all-identity strings; distinct by (circuit, string, state, outcome, flavour)"
)
ASSUMPTIONS = [
    "gate semantics of vlib.quantum on the harness executor; outcome forcing falls back when the forced outcome has probability < 1e-9",
    "set_qubit_state tolerance: fidelity >= 1 - 2e-8 (two rotations, each within 1e-4 rad of its angle, keep the state within about 0.7e-4 of the target)",
    "an angle is any real number: Python int and numpy int32/int64/float32/float64 scalars are in the domain of the `float` parameters (the numeric tower of "
    "PEP 484; the unmodified code reduces them with `%`); the target state is computed from float(value)",
    "a list handed to parity_meas stays the caller's: using the same list object for a later call addresses the same qubits in the same order",
]
SHARDS = {"quick": 4, "thorough": 16}


def setup(flavour: str, n: int, max_qubits: int = 5):
    from netqasm.lang.instr.flavour import NVFlavour
    from netqasm.sdk.build_types import NVHardwareConfig
    from netqasm.sdk.qubit import Qubit
    from netqasm.sdk.transpile import NVSubroutineTranspiler
    from vlib import sim

    kw: Dict[str, Any] = {"max_qubits": max_qubits}
    fl = None
    if flavour == "nv":
        kw.update(compiler=NVSubroutineTranspiler, hardware_config=NVHardwareConfig(max_qubits))
        fl = NVFlavour()
    ctrl, conn = sim.fresh(sim.StateVectorExecutor, flavour=fl, **kw)
    ex = ctrl._executor
    ex.step_bound = 50000
    qs = [Qubit(conn) for _ in range(n)]
    conn.flush()
    return ctrl, conn, ex, qs


def phys_of(ex, conn, q):
    return ex._qubit_unit_modules[conn.app_id][q.qubit_id]


def inject(ex, conn, qs, vec, refs=0):
    """replace the (|0..0>) state of the data qubits by `vec` over (data..., refs...)"""
    labels = [phys_of(ex, conn, q) for q in qs]
    for lab in labels:
        ex.sv.remove(lab)
    ref_labels = [("ref", i) for i in range(refs)]
    ex.sv.add_joint(labels + ref_labels, vec)
    return labels, ref_labels


def choi(n):
    """|Phi+>^n ordered as (data_0..data_{n-1}, ref_0..ref_{n-1})"""
    dim = 2**n
    v = np.zeros(dim * dim, dtype=complex)
    for i in range(dim):
        v[i * dim + i] = 1 / math.sqrt(dim)
    return v


def check_unitary(case) -> None:
    from netqasm.sdk.toolbox import t_inverse, toffoli_gate

    which = case["circuit"]
    n = 3 if which == "toffoli" else 1
    ctrl, conn, ex, qs = setup(case["flavour"], n)
    if case["input"] == "choi":
        vec = choi(n)
        refs = n
    else:
        vec = np.zeros(2**n, dtype=complex)
        vec[case["input"]] = 1
        refs = 0
    labels, ref_labels = inject(ex, conn, qs, vec, refs)
    try:
        if which == "toffoli":
            toffoli_gate(*qs)
        else:
            t_inverse(qs[0])
        conn.flush()
    except Exception as e:
        raise Failure(f"{which}:raises:{case['flavour']}", case, f"{type(e).__name__}: {(str(e).splitlines() or [''])[0][:200]}")
    if which == "toffoli":
        U = np.eye(8, dtype=complex)
        U[6, 6] = U[7, 7] = 0
        U[6, 7] = U[7, 6] = 1
    else:
        U = qm.T.conj().T
    full = np.kron(U, np.eye(2**refs)) if refs else U
    want = full @ vec
    now = [phys_of(ex, conn, q) for q in qs]
    got = ex.sv.ordered(now + ref_labels)
    if len(ex.sv.labels) != n + refs:
        raise Failure(f"{which}:extra-qubits:{case['flavour']}", case, f"{len(ex.sv.labels)} qubits in memory afterwards")
    if not qm.vec_equal_up_to_phase(got, want, 1e-7):
        raise Failure(f"{which}:operator:{case['flavour']}", case, f"{which} does not implement its documented operator (overlap with the expected output {abs(np.vdot(want, got)):.4f})")


ANGLE_TYPES = {"float": float, "int": int, "np.int64": np.int64, "np.int32": np.int32, "np.float64": np.float64, "np.float32": np.float32}
INT_ANGLE_TYPES = ("int", "np.int64", "np.int32")


def typed_angle(value, tname: str):
    """the number `value` as an instance of the named type (the case itself stays JSON: value + type name)"""
    return ANGLE_TYPES[tname](value)


def check_state_prep(case) -> None:
    from netqasm.sdk.toolbox import set_qubit_state

    ctrl, conn, ex, qs = setup(case["flavour"], 1)
    tt, pt = case.get("theta_type", "float"), case.get("phi_type", "float")
    theta_arg, phi_arg = typed_angle(case["theta"], tt), typed_angle(case["phi"], pt)
    # the oracle works with the real number that the argument denotes
    theta, phi = float(theta_arg), float(phi_arg)
    typed = "" if (tt, pt) == ("float", "float") else f":{tt},{pt}"
    try:
        set_qubit_state(qs[0], phi=phi_arg, theta=theta_arg)
        conn.flush()
    except Exception as e:
        raise Failure(f"state_prep:raises:{case['flavour']}", case, f"{type(e).__name__}: {(str(e).splitlines() or [''])[0][:200]}")
    got = ex.sv.ordered([phys_of(ex, conn, qs[0])])
    want = np.array([math.cos(theta / 2), np.exp(1j * phi) * math.sin(theta / 2)], dtype=complex)
    f = abs(np.vdot(want, got)) ** 2
    if f < 1 - 2e-8:
        sig = f"state_prep:fidelity:{case['flavour']}" if not typed else f"state_prep:fidelity-non-float-angle:{case['flavour']}"
        raise Failure(sig, case, f"set_qubit_state(theta={theta_arg!r} [{tt}], phi={phi_arg!r} [{pt}]) prepared a state with fidelity {f:.8f}")


def pauli_string_op(bases: str) -> np.ndarray:
    P = np.array([[1]], dtype=complex)
    for b in bases:
        P = np.kron(P, qm.PAULI[b.lower()])
    return P


def check_parity(case) -> None:
    from netqasm.sdk.toolbox import parity_meas

    bases_full = case["bases"]
    neg = bases_full.startswith("-")
    bases = bases_full[1:] if neg else bases_full
    n = len(bases)
    ctrl, conn, ex, alloc = setup(case["flavour"], n)
    # the caller lists the qubits in any order of their virtual ids; `qs` is the harness's own record of that order,
    # `arg` is the list object that the caller hands to parity_meas (and keeps using afterwards)
    perm = case.get("perm") or list(range(n))
    qs = [alloc[i] for i in perm]
    arg = list(qs)
    vec = np.array([complex(a, b) for a, b in case["state"]], dtype=complex)
    vec = vec / np.linalg.norm(vec)
    inject(ex, conn, qs, vec)
    s = -1 if neg else 1
    P = pauli_string_op(bases)
    m_forced = case["outcome"]
    probs = []
    ex.before_measure_hook = lambda p: probs.append(ex.sv.prob1(p))
    # the raw ancilla / qubit outcome that corresponds to reported outcome m: reported = raw xor neg
    raw_forced = m_forced ^ (1 if neg else 0)
    ex.outcomes = [raw_forced]
    try:
        m = parity_meas(arg, bases_full)
        conn.flush()
        m_val = int(m)
    except Exception as e:
        raise Failure(f"parity:raises:{case['flavour']}", case, f"parity_meas({bases_full!r}) raised {type(e).__name__}: {(str(e).splitlines() or [''])[0][:200]}")
    if m_val not in (0, 1):
        raise Failure("parity:not-a-bit", case, f"returned {m_val}")
    proj = {mm: (np.eye(2**n) + ((-1) ** mm) * s * P) / 2 for mm in (0, 1)}
    p_expected = {mm: float(np.real(np.vdot(vec, proj[mm] @ vec))) for mm in (0, 1)}
    if p_expected[m_val] < 1e-9:
        raise Failure(f"parity:impossible-outcome:{case['flavour']}", case, f"parity_meas({bases_full!r}) returned {m_val}, which has probability {p_expected[m_val]:.2e} for this state")
    if probs:
        # probability that the measured qubit gave raw outcome 1 <-> reported outcome (1 xor neg)
        p1_reported = p_expected[1 ^ (1 if neg else 0)]
        if abs(probs[0] - p1_reported) > 1e-7:
            raise Failure(f"parity:distribution:{case['flavour']}", case, f"parity_meas({bases_full!r}): probability of the raw outcome 1 is {probs[0]:.6f}, expected {p1_reported:.6f}")
    elif any(b != "I" for b in bases):
        raise Failure("parity:no-measurement", case, "no measurement happened")
    want = proj[m_val] @ vec
    want = want / np.linalg.norm(want)
    if len(ex.sv.labels) != n:
        raise Failure(f"parity:ancilla-left:{case['flavour']}", case, f"{len(ex.sv.labels)} qubits in memory after a parity measurement on {n}")
    got = ex.sv.ordered([phys_of(ex, conn, q) for q in qs])
    if not qm.vec_equal_up_to_phase(got, want, 1e-7):
        raise Failure(f"parity:post-state:{case['flavour']}", case, f"parity_meas({bases_full!r}) outcome {m_val}: post-measurement state is not the projection (overlap {abs(np.vdot(want, got)):.4f})")
    if p_expected[m_forced] > 1e-9 and m_val != m_forced:
        raise Failure(f"parity:outcome-mapping:{case['flavour']}", case, f"forced parity outcome {m_forced} was reported as {m_val}")
    if not case.get("repeat"):
        return
    # The caller measures the same Pauli string again, handing in the same list object.  The state is now an eigenstate of
    # s*P with eigenvalue (-1)^m: the same outcome has probability 1 (the opposite raw outcome is forced and must be impossible)
    # and the state stays what it is.
    probs.clear()
    ex.outcomes = [1 - (m_val ^ (1 if neg else 0))]
    try:
        m2 = parity_meas(arg, bases_full)
        conn.flush()
        m2_val = int(m2)
    except Exception as e:
        raise Failure(f"parity:repeat-raises:{case['flavour']}", case, f"second parity_meas({bases_full!r}) on the same list raised {type(e).__name__}: {(str(e).splitlines() or [''])[0][:200]}")
    if m2_val != m_val:
        raise Failure(f"parity:repeat-outcome:{case['flavour']}", case, f"parity_meas({bases_full!r}) gave {m_val}; repeated at once on the same list object (qubits listed in id order {perm}) it gave {m2_val}")
    if len(ex.sv.labels) != n:
        raise Failure(f"parity:ancilla-left:{case['flavour']}", case, f"{len(ex.sv.labels)} qubits in memory after the repeated parity measurement on {n}")
    got = ex.sv.ordered([phys_of(ex, conn, q) for q in qs])
    if not qm.vec_equal_up_to_phase(got, want, 1e-7):
        raise Failure(f"parity:repeat-post-state:{case['flavour']}", case, f"parity_meas({bases_full!r}) repeated on the same list object (qubits listed in id order {perm}) changed the state (overlap {abs(np.vdot(want, got)):.4f})")


TOFFOLI = np.eye(8, dtype=complex)
TOFFOLI[6, 6] = TOFFOLI[7, 7] = 0
TOFFOLI[6, 7] = TOFFOLI[7, 6] = 1


KF_BORROW = "nv-transpiler-borrows-unallocated-electron"


class Excluded(Exception):
    pass


def check_session(case, open_findings=()) -> None:
    """several toolbox calls on one connection (operands in any order, flushes anywhere, outcomes read at the end)"""
    from netqasm.sdk.toolbox import parity_meas, t_inverse, toffoli_gate

    n = case["n"]
    # room for the data qubits, the ancilla and (single-communication-qubit devices) one free slot to move a qubit to
    ctrl, conn, ex, qs = setup(case["flavour"], n, max_qubits=n + 2)
    vec = np.array([complex(a, b) for a, b in case["state"]], dtype=complex)[: 2**n]
    vec = vec / np.linalg.norm(vec)
    inject(ex, conn, qs, vec)
    forced: List[int] = []
    model = vec.copy()
    expected: List[int] = []
    handles: List[Any] = []
    # caller-owned lists: with case["alias"], parity measurements on the same qubits in the same order hand in the same list object
    lists: Dict[Any, List[Any]] = {}
    for op in case["ops"]:
        if op[0] == "parity":
            forced.append(op[3] ^ (1 if op[2].startswith("-") else 0))
    ex.outcomes = list(forced)
    try:
        for op in case["ops"]:
            if op[0] == "toffoli":
                if KF_BORROW in open_findings and case["flavour"] == "nv" and all(q.qubit_id != 0 for q in qs):
                    raise Excluded(KF_BORROW)  # carbon-carbon gates while nothing is allocated at virtual id 0
                toffoli_gate(*[qs[i] for i in op[1]])
                model = qm.embed(TOFFOLI, list(op[1]), n) @ model
            elif op[0] == "t_inverse":
                t_inverse(qs[op[1]])
                model = qm.embed(qm.T.conj().T, [op[1]], n) @ model
            elif op[0] == "parity":
                _, idx, bases_full, want = op
                neg = bases_full.startswith("-")
                P = qm.embed(pauli_string_op(bases_full.lstrip("-")), list(idx), n)
                sgn = -1 if neg else 1
                proj = {mm: (np.eye(2**n) + ((-1) ** mm) * sgn * P) / 2 for mm in (0, 1)}
                pr = {mm: float(np.real(np.vdot(model, proj[mm] @ model))) for mm in (0, 1)}
                m = want if pr[want] > 1e-9 else 1 - want
                if min(pr.values()) > 1e-9 and min(pr.values()) < 1e-6:
                    raise Rejected("outcome probability too close to the fallback threshold")
                expected.append(m)
                model = proj[m] @ model
                model = model / np.linalg.norm(model)
                arg = [qs[i] for i in idx]
                if case.get("alias"):
                    arg = lists.setdefault(tuple(idx), arg)
                handles.append(parity_meas(arg, bases_full))
            elif op[0] == "flush":
                conn.flush()
        conn.flush()
        got_m = [int(h) for h in handles]
    except (Rejected, Excluded):
        raise
    except Exception as e:
        raise Failure(f"session:raises:{case['flavour']}", case, f"{type(e).__name__}: {(str(e).splitlines() or [''])[0][:200]}")
    if got_m != expected:
        raise Failure(f"session:outcomes:{case['flavour']}", case, f"parity outcomes read after the last flush {got_m}, expected {expected} (forced raw outcomes {forced})")
    if len(ex.sv.labels) != n:
        raise Failure(f"session:ancilla-left:{case['flavour']}", case, f"{len(ex.sv.labels)} qubits in memory, expected {n}")
    got = ex.sv.ordered([phys_of(ex, conn, q) for q in qs])
    if not qm.vec_equal_up_to_phase(got, model, 1e-7):
        raise Failure(f"session:state:{case['flavour']}", case, f"state after the sequence differs from the documented operators applied in order (overlap {abs(np.vdot(model, got)):.4f})")


class Rejected(Exception):
    pass


@st.composite
def st_session(draw):
    fl = draw(st.sampled_from(["vanilla", "nv", "nv"]))
    n = draw(st.integers(3, 4))
    st_amp = st.tuples(st.floats(-1, 1, allow_nan=False), st.floats(-1, 1, allow_nan=False)).map(list)
    amps = draw(st.lists(st_amp, min_size=2**n, max_size=2**n))
    if sum(a * a + b * b for a, b in amps) < 1e-3:
        amps[0] = [1.0, 0.0]
    ops: List[Any] = []
    if draw(st.integers(0, 7)) == 0:
        # many single-letter parity measurements (measured in place) in one subroutine, no flush in between
        for _ in range(draw(st.integers(17, 22))):
            q = draw(st.integers(0, n - 1))
            ops.append(["parity", [q], ("-" if draw(st.booleans()) else "") + draw(st.sampled_from("XYZ")), draw(st.integers(0, 1))])
        return {"kind": "session", "flavour": fl, "n": n, "state": amps, "ops": ops, "long": True}
    alias = draw(st.sampled_from([True, True, False]))
    used: List[Any] = []  # operand lists of the parity measurements so far
    for _ in range(draw(st.integers(1, 4))):
        k = draw(st.integers(0, 9))
        if k <= 2:
            ops.append(["toffoli", draw(st.permutations(range(n)))[:3]])
        elif k == 3:
            ops.append(["t_inverse", draw(st.integers(0, n - 1))])
        elif k <= 7:
            if alias and used and draw(st.integers(0, 2)) > 0:
                idx = list(draw(st.sampled_from(used)))  # the caller uses a list it already has
                m = len(idx)
            else:
                m = draw(st.integers(1, 3))
                idx = draw(st.permutations(range(n)))[:m]
                used.append(list(idx))
            letters = draw(st.lists(st.sampled_from("IXYZ"), min_size=m, max_size=m))
            if all(c == "I" for c in letters):
                letters[draw(st.integers(0, m - 1))] = draw(st.sampled_from("XYZ"))
            ops.append(["parity", idx, ("-" if draw(st.booleans()) else "") + "".join(letters), draw(st.integers(0, 1))])
        else:
            ops.append(["flush"])
        if draw(st.integers(0, 2)) == 0:
            ops.append(["flush"])
    return {"kind": "session", "flavour": fl, "n": n, "state": amps, "ops": ops, "alias": alias}


def check(case, open_findings=()) -> None:
    k = case["kind"]
    if k == "session":
        check_session(case, open_findings)
    elif k == "unitary":
        check_unitary(case)
    elif k == "state_prep":
        check_state_prep(case)
    else:
        check_parity(case)


def all_strings():
    out = []
    for n in (1, 2, 3):
        for t in itertools.product("IXYZ", repeat=n):
            out.append("".join(t))
            out.append("-" + "".join(t))
    return out


def basis_state(n, i):
    return [[1.0 if j == i else 0.0, 0.0] for j in range(2**n)]


def shard(ctx: Ctx) -> None:
    stt = ctx.stats
    cases: List[Dict[str, Any]] = []
    for fl in ("vanilla", "nv"):
        for circ, n in (("toffoli", 3), ("t_inverse", 1)):
            cases.append({"kind": "unitary", "circuit": circ, "input": "choi", "flavour": fl})
            for i in range(2**n):
                cases.append({"kind": "unitary", "circuit": circ, "input": i, "flavour": fl})
    strings = all_strings()
    plus = {1: [[1, 0], [1, 0]], 2: [[1, 0], [0, 1], [0.5, 0], [0, -1]], 3: [[1, 0], [0, 1], [1, 1], [0, 0], [0.3, 0], [0, -1], [2, 0], [1, -1]]}
    for fl in ("vanilla", "nv"):
        for sidx, bs in enumerate(strings):
            n = len(bs.lstrip("-"))
            if fl == "nv" and ctx.tier == "quick" and sidx % 4 != 0:
                continue
            for outcome in (0, 1):
                cases.append({"kind": "parity", "bases": bs, "state": plus[n], "outcome": outcome, "flavour": fl})
                if ctx.tier != "quick" or sidx % 3 == 0:
                    cases.append({"kind": "parity", "bases": bs, "state": basis_state(n, (sidx * 7 + outcome) % (2**n)), "outcome": outcome, "flavour": fl})
    mine = [c for i, c in enumerate(cases) if i % ctx.nshards == ctx.shard]
    for case in mine:
        ctx.attempt(case, check, case)
        nt = not (case["kind"] == "parity" and set(case["bases"].lstrip("-")) == {"I"})
        stt.case(case, nt, [case["kind"], case["flavour"]] + ([case["circuit"]] if case["kind"] == "unitary" else []), sample=case if case["kind"] != "parity" or len(case["bases"]) <= 2 else None)
    stt.exhaustive_domains["toffoli/t_inverse on Choi + basis inputs; parity strings (168) x fixed states x outcomes"] = len(mine)

    n = 60 if ctx.tier == "quick" else 1500
    st_amp = st.tuples(st.floats(-1, 1, allow_nan=False), st.floats(-1, 1, allow_nan=False)).map(list)

    def body_parity(t):
        bs, amps, outcome, fl, order, repeat = t
        nq = len(bs.lstrip("-"))
        amps = amps[: 2**nq]
        if sum(a * a + b * b for a, b in amps) < 1e-3:
            amps = [[1.0, 0.0]] + amps[1:]
        # the order in which the caller lists the allocated qubits: the relative order of the first nq entries of a permutation of 0..2
        perm = [sorted(order[:nq]).index(v) for v in order[:nq]]
        case = {"kind": "parity", "bases": bs, "state": amps, "outcome": outcome, "flavour": fl, "perm": perm, "repeat": repeat}
        check(case)
        labels = ["parity:random-state", fl]
        if perm != sorted(perm):
            labels.append("parity:list-not-in-id-order")
        if repeat:
            labels.append("parity:repeated-on-the-same-list")
            if perm != sorted(perm):
                labels.append("parity:repeated-on-the-same-list,not-in-id-order")
        stt.case(case, set(bs.lstrip("-")) != {"I"}, labels)

    st_order = st.permutations([0, 1, 2])
    ctx.search(
        st.tuples(st.sampled_from(strings), st.lists(st_amp, min_size=8, max_size=8), st.integers(0, 1), st.sampled_from(["vanilla", "vanilla", "nv"]), st_order, st.sampled_from([True, True, False])),
        body_parity,
        n,
        name="c20-parity",
    )

    def body_prep(t):
        theta, phi, fl = t
        case = {"kind": "state_prep", "theta": theta, "phi": phi, "flavour": fl}
        check(case)
        stt.case(case, True, ["state_prep", fl])

    st_angle = st.floats(0, 2 * math.pi) | st.floats(-4 * math.pi, 6 * math.pi) | st.sampled_from([0.0, -math.pi / 2, -math.pi, math.pi, 2 * math.pi, -1e-3, 3 * math.pi])
    ctx.search(st.tuples(st.floats(0, math.pi) | st_angle, st_angle, st.sampled_from(["vanilla", "nv"])), body_prep, n // 2, name="c20-prep", salt=1)

    def body_prep_typed(t):
        (theta, tt), (phi, pt), fl = t
        case = {"kind": "state_prep", "theta": theta, "phi": phi, "theta_type": tt, "phi_type": pt, "flavour": fl}
        check(case)
        labels = ["state_prep", fl, "state_prep:angle-type"]
        for v, tn in ((theta, tt), (phi, pt)):
            if tn != "float":
                labels.append(f"state_prep:angle-as-{tn}")
            if tn in INT_ANGLE_TYPES and v != 0:
                labels.append("state_prep:non-zero-angle-of-an-integer-type")
        stt.case(case, (tt, pt) != ("float", "float"), labels, sample=case)

    # an angle together with the type it is handed over as: whole numbers of radians as int / numpy integers, reals as float /
    # np.float64 / np.float32 (the float32 value is stored exactly, as the Python float it converts to)
    st_typed = (
        st.tuples(st.integers(-12, 20), st.sampled_from(INT_ANGLE_TYPES))
        | st.tuples(st.integers(1, 6), st.sampled_from(INT_ANGLE_TYPES))
        | st.tuples(st_angle, st.sampled_from(["float", "np.float64"]))
        | st.tuples(st.floats(-12.5, 18.75, width=32), st.just("np.float32"))
    )
    ctx.search(st.tuples(st_typed, st_typed, st.sampled_from(["vanilla", "nv"])), body_prep_typed, max(n // 3, 12), name="c20-prep-typed", salt=3)

    def body_session(case):
        try:
            check(case, ctx.open_findings)
        except Rejected as r:
            stt.rejected[str(r)] += 1
            return
        except Excluded as e:
            stt.excluded[str(e)] += 1
            return
        kinds = [op[0] for op in case["ops"]]
        labels = ["session", case["flavour"], f"ops:{len([k for k in kinds if k != 'flush'])}"]
        if kinds.count("parity") >= 2:
            labels.append("session:>=2-parity")
        if case.get("long"):
            labels.append("session:17+-in-place-measurements-in-one-subroutine")
        if any(op[0] == "toffoli" and list(op[1]) != sorted(op[1]) for op in case["ops"]):
            labels.append("session:permuted-toffoli")
        if case.get("alias"):
            par = [tuple(op[1]) for op in case["ops"] if op[0] == "parity"]
            again = [i for i in set(par) if par.count(i) >= 2]
            if again:
                labels.append("session:one-list-object-in->=2-parity-calls")
            if any(len(i) >= 2 and list(i) != sorted(i) for i in again):
                labels.append("session:one-list-object-in->=2-parity-calls,not-in-id-order")
        stt.case(case, len([k for k in kinds if k != "flush"]) >= 2, labels, sample=case if len(case["ops"]) <= 3 else None)

    ctx.search(st_session(), body_session, n * 2, name="c20-session", salt=2)


def replay(case):
    try:
        check(case)
    except Failure as f:
        return f
    return None
