"""C15 — host/controller messages survive serialisation."""
from __future__ import annotations

import contextlib
import ctypes
from typing import Any, Dict, List

from hypothesis import strategies as st

from vlib import gen_instr as g
from vlib.runner import Ctx, Failure, HarnessError

LEVEL = "exploration"
RULE = (
    "every class in MESSAGE_CLASSES and RETURN_MESSAGE_CLASSES (introspected), fields drawn over their declared "
    "ctypes widths with boundary bias, subroutine payloads from the C01 generator, arrays of length 0..64 with arbitrary "
    "None patterns (some of length 255..700), all ErrorCode/Signal members, at the default log level or with the library logging at DEBUG / INFO; oracle: deserialize(bytes(m)) has the same class and equal fields; histories: one message serialised, changed (in-place list edits, attribute assignment), serialised again; one byte string decoded, the result changed, decoded again; 8-bit code fields (error code, signal) with any 8-bit value, set on the object or arriving as bytes. "
    "The integer fields and array entries are given as plain int or carried by another integer type the pinned tree takes (bool for 0/1, an int subclass, numpy signed/unsigned integer scalars of every size that holds the number; several types mixed in one array; the array as list, tuple or ndarray), in single messages, in the histories (initial values and edits) and enumerated over small patterns; the oracle compares with the plain numbers. "
    "Non-trivial = array with both defined and undefined entries, or any field at a width boundary, or a subroutine "
    "payload with >=1 instruction; distinct by (class, field values)"
)
ASSUMPTIONS = [
    "messages are constructed through their public constructors with in-range field values",
    "an integer field value is a Python int (including bool and int subclasses) or a numpy integer scalar whose value lies in the declared width; floats and numpy.bool_ are outside (the pinned tree refuses them)",
    "field widths are those declared on the pinned tree (app/message ids uint32, socket/node ids and integers int32, qubit counts/fidelity uint8), frozen in the check",
]
SHARDS = {"quick": 1, "thorough": 16}


def _int_range(ct):
    size = ctypes.sizeof(ct) * 8
    signed = ct in (ctypes.c_int8, ctypes.c_int16, ctypes.c_int32, ctypes.c_int64, ctypes.c_int, ctypes.c_long)
    if signed:
        return -(2 ** (size - 1)), 2 ** (size - 1) - 1
    return 0, 2**size - 1


def st_int_ct(ct):
    lo, hi = _int_range(ct)
    return st.sampled_from([lo, hi, 0, 1, hi - 1]) | st.integers(lo, hi) | st.integers(max(lo, -300), min(hi, 300))


def all_fields(cls):
    out = []
    for b in reversed(cls.__mro__):
        for f in b.__dict__.get("_fields_", []):
            out.append(f)
    return out


# Declared field widths of the messages, frozen from the pinned tree (like C02's opcode table): a change that narrows
# a field would otherwise silently narrow the generator with it.
U8, U32, I32 = ctypes.c_uint8, ctypes.c_uint32, ctypes.c_int32


# ---------------------------------------------------------------- the Python type a field value arrives in
# The declared widths say which *numbers* a field takes, not which Python class carries them: a controller built on a
# numpy simulator hands over numpy integer scalars (measurement outcomes, elements of an ndarray, results of numpy
# arithmetic), flags arrive as bool, ids as instances of int subclasses.  The pinned tree takes all of these (ctypes
# goes through __index__).  A case stays plain JSON: the numbers are in case["fields"] (and the oracle only ever looks
# at those), the carrier types are named by tags in case["ityp"] and applied when the message object is built.
INT_TAGS = ["int", "bool", "intsub", "np.int64", "np.int32", "np.int16", "np.int8", "np.uint8", "np.uint16", "np.uint32", "np.uint64"]
CONTAINERS = ["list", "tuple", "ndarray"]


class _IntSub(int):
    """an int subclass (what an IntEnum member, a typed id, ... is)"""

    __slots__ = ()


def _typed(v, tag):
    """the number v carried by the type named by tag (by np.int64, which holds every declared width, or by int, when
    that type cannot hold it); undefined stays undefined"""
    if v is None or tag is None or tag == "int":
        return v
    if tag == "bool":
        return bool(v) if v in (0, 1) else v
    if tag == "intsub":
        return _IntSub(v)
    import numpy as np

    t = getattr(np, tag[3:])
    info = np.iinfo(t)
    if info.min <= v <= info.max:
        return t(v)
    return np.int64(v)


def _carrier(v, tag):
    """label: the type that actually carries v"""
    x = _typed(v, tag)
    return "undefined" if x is None else ("np." if type(x).__module__ == "numpy" else "") + type(x).__name__


def _typed_values(values, ityp):
    tags = (ityp or {}).get("values") or ["int"]
    vals = [_typed(v, tags[i % len(tags)]) for i, v in enumerate(values)]
    cont = (ityp or {}).get("container", "list")
    if cont == "tuple":
        return tuple(vals)
    if cont == "ndarray":
        import numpy as np

        if any(v is None for v in vals):
            a = np.empty(len(vals), dtype=object)
            for i, v in enumerate(vals):
                a[i] = v
            return a
        return np.array([int(v) for v in vals], dtype=np.int64)
    return vals


def st_ityp(field_names, is_array):
    """a tag per integer field / a short cyclic pattern of tags for the entries of an array and the container they come in"""
    tag = st.sampled_from(INT_TAGS)
    d = {k: tag for k in field_names}
    if is_array:
        d["values"] = st.lists(tag, min_size=1, max_size=5)
        d["container"] = st.sampled_from(["list"] * 4 + CONTAINERS)
    return st.fixed_dictionaries(d)


TYPED_FIELDS = {
    "InitNewAppMessage": ["app_id", "max_qubits"],
    "OpenEPRSocketMessage": ["app_id", "epr_socket_id", "remote_node_id", "remote_epr_socket_id", "min_fidelity"],
    "StopAppMessage": ["app_id"],
    "MsgDoneMessage": ["msg_id"],
    "ReturnRegMessage": ["value"],
    "ReturnArrayMessage": ["address", "values"],
}


def st_message():
    from netqasm.backend import messages as M
    from netqasm.lang import encoding as E

    strategies = []
    known = {}

    known[M.InitNewAppMessage] = st.fixed_dictionaries({"app_id": st_int_ct(U32), "max_qubits": st_int_ct(U8)})
    known[M.OpenEPRSocketMessage] = st.fixed_dictionaries(
        {
            "app_id": st_int_ct(U32),
            "epr_socket_id": st_int_ct(I32),
            "remote_node_id": st_int_ct(I32),
            "remote_epr_socket_id": st_int_ct(I32),
            "min_fidelity": st_int_ct(U8),
        }
    )
    known[M.StopAppMessage] = st.fixed_dictionaries({"app_id": st_int_ct(U32)})
    known[M.SignalMessage] = st.fixed_dictionaries({"signal": st.sampled_from([s.name for s in M.Signal])})
    known[M.SubroutineMessage] = st.sampled_from(list(g.FLAVOURS)).flatmap(lambda f: g.st_subroutine(f, 8)).map(lambda j: {"sub": j})
    known[M.MsgDoneMessage] = st.fixed_dictionaries({"msg_id": st_int_ct(U32)})
    known[M.ErrorMessage] = st.fixed_dictionaries({"err_code": st.sampled_from([e.name for e in M.ErrorCode])})
    known[M.ReturnRegMessage] = st.fixed_dictionaries({"register": g.st_reg, "value": st_int_ct(I32)})
    val = st.none() | st_int_ct(I32)
    # mostly short arrays; some around the sizes at which a block-wise or length-prefixed codec would switch paths
    long_vals = st.sampled_from([255, 256, 257, 258, 300, 511, 512, 513, 700]).flatmap(
        lambda n: st.tuples(st.lists(val, min_size=8, max_size=8), st.integers(0, 7), st.integers(1, 7)).map(
            lambda t, n=n: [t[0][(i * t[2] + t[1] + i // 37) % 8] for i in range(n)]
        )
    )
    # arrays in which every entry is undefined (a freshly declared array returned as it is), or every entry the same number
    uniform_vals = st.tuples(st.sampled_from([1, 2, 16, 17, 18, 40, 300]), st.none() | st.none() | st_int_ct(I32)).map(lambda t: [t[1]] * t[0])
    known[M.ReturnArrayMessage] = st.fixed_dictionaries(
        {"address": st_int_ct(I32), "values": st.one_of(*([st.lists(val, min_size=0, max_size=64)] * 7 + [long_vals, uniform_vals]))}
    )
    for direction, table in (("host", M.MESSAGE_CLASSES), ("return", M.RETURN_MESSAGE_CLASSES)):
        for _t, cls in table.items():
            if cls not in known:
                raise HarnessError(f"message class {cls.__name__} has no generator")
            base = known[cls].map(lambda d, cls=cls, direction=direction: {"dir": direction, "cls": cls.__name__, "fields": d})
            strategies.append(base)
            # the same messages with their integer fields carried by other integer types
            ints = [k for k in TYPED_FIELDS.get(cls.__name__, [])]
            if ints:
                strategies.append(
                    st.tuples(base, st_ityp([k for k in ints if k != "values"], "values" in ints)).map(lambda t: dict(t[0], ityp=t[1]))
                )
    # the process may run at any log level (the library logs what it serialises at DEBUG)
    return st.tuples(st.one_of(strategies), st.sampled_from([None, None, None, "DEBUG", "INFO"])).map(lambda t: dict(t[0], log_level=t[1]))


from vlib.loglevel import log_level as _log_level  # noqa: E402


def build_message(case):
    from netqasm.backend import messages as M
    from netqasm.lang import encoding as E

    cls = getattr(M, case["cls"])
    f = case["fields"]
    ityp = case.get("ityp")
    if ityp:
        f = {k: (_typed(v, ityp.get(k)) if k != "values" and isinstance(v, int) else v) for k, v in f.items()}
    if cls is M.SignalMessage:
        return cls(signal=M.Signal[f["signal"]])
    if cls is M.ErrorMessage:
        return cls(err_code=M.ErrorCode[f["err_code"]])
    if cls is M.SubroutineMessage:
        return cls(subroutine=g.build_subroutine(f["sub"]))
    if cls is M.ReturnRegMessage:
        r = g.reg_from_str(f["register"])
        return cls(register=E.Register(r.name.value, r.index), value=f["value"])
    if cls is M.ReturnArrayMessage:
        return cls(address=f["address"], values=_typed_values(list(f["values"]), ityp))
    return cls(**f)


def _plain(v):
    if isinstance(v, ctypes.Structure):
        return {n: _plain(getattr(v, n)) for n, *_ in all_fields(type(v))}
    if isinstance(v, ctypes.Array):
        return list(v)
    return v


def check_message(case) -> None:
    with _log_level(case.get("log_level")):
        _check_message(case)


def _check_message(case) -> None:
    from netqasm.backend import messages as M
    from netqasm.lang.parsing import deserialize

    m = build_message(case)
    raw = bytes(m)
    deser = M.deserialize_host_msg if case["dir"] == "host" else M.deserialize_return_msg
    try:
        back = deser(raw)
    except Exception as e:
        raise Failure(f"msg:{case['cls']}:raises", case, f"deserialising own bytes raised {type(e).__name__}: {e}")
    if type(back) is not type(m):
        raise Failure(f"msg:{case['cls']}:class", case, f"came back as {type(back).__name__}")
    cls = type(m)
    f = case["fields"]
    if cls is M.SubroutineMessage:
        sub = g.build_subroutine(f["sub"])
        if back.subroutine != bytes(sub) or back.type != m.type:
            raise Failure("msg:SubroutineMessage:payload", case, "subroutine payload bytes changed")
        s2 = deserialize(back.subroutine, flavour=g.FLAVOURS[f["sub"]["flavour"]]())
        if s2.instructions != sub.instructions or s2.app_id != sub.app_id:
            raise Failure("msg:SubroutineMessage:payload", case, "subroutine payload decodes differently")
        return
    if cls is M.ReturnArrayMessage:
        if back.address != f["address"]:
            raise Failure("msg:ReturnArrayMessage:address", case, f"address {f['address']} -> {back.address}")
        got = list(back.values)
        if len(got) != len(f["values"]):
            raise Failure("msg:ReturnArrayMessage:length", case, f"length {len(f['values'])} -> {len(got)}")
        for i, (a, b) in enumerate(zip(f["values"], got)):
            if a is None and b is not None:
                raise Failure("msg:ReturnArrayMessage:undefined-entry", case, f"undefined entry {i} came back as {b!r}")
            if a != b or (b is not None and not isinstance(b, int)):
                tags = (case.get("ityp") or {}).get("values")
                how = f" (given as {_carrier(a, tags[i % len(tags)])} in a {case['ityp'].get('container', 'list')})" if tags else ""
                raise Failure("msg:ReturnArrayMessage:value", case, f"entry {i}: {a!r}{how} came back as {b!r}")
        if back.type != m.type:
            raise Failure("msg:ReturnArrayMessage:type", case, "type byte changed")
        return
    for name, *_ in all_fields(cls):
        a, b = _plain(getattr(m, name)), _plain(getattr(back, name))
        if a != b:
            raise Failure(f"msg:{cls.__name__}:{name}", case, f"field {name}: {a!r} came back as {b!r}")
    # and the message holds what was passed in
    for k, v in f.items():
        got = _plain(getattr(m, k))
        if k == "signal":
            want = M.Signal[v].value
        elif k == "err_code":
            want = M.ErrorCode[v].value
        elif k == "register":
            r = g.reg_from_str(v)
            want = {"register_name": r.name.value, "register_index": r.index, "padding": 0}
        else:
            want = v
        if got != want:
            raise Failure(f"msg:{cls.__name__}:{k}:ctor", case, f"constructor stored {got!r} for {k}={want!r}")


# ---------------------------------------------------------------- one message object / one byte string used more than once


def _fields_of(m, case):
    """current field values of a message object, in the shape of case['fields']"""
    from netqasm.backend import messages as M

    if isinstance(m, M.ReturnArrayMessage):
        return {"address": m.address, "values": list(m.values)}
    return {k: _plain(getattr(m, k)) for k in case["fields"]}


def st_history():
    """a message that is serialised, changed through its public attributes (in place for the value list), and serialised
    again; or a byte string that is decoded, the decoded object changed, and the same bytes decoded again"""
    val = st.none() | st_int_ct(I32)
    arr = st.fixed_dictionaries({"address": st.integers(0, 50), "values": st.lists(val, min_size=1, max_size=12)})
    edit = st.one_of(
        st.tuples(st.just("setitem"), st.integers(0, 11), val),
        st.tuples(st.just("append"), val),
        st.tuples(st.just("pop")),
        st.tuples(st.just("assign"), st.lists(val, max_size=12)),
        st.tuples(st.just("address"), st.integers(0, 50)),
    )
    # the numbers of the message and of the edits may be carried by any integer type (tags applied cyclically)
    tags = st.none() | st.lists(st.sampled_from(INT_TAGS), min_size=1, max_size=4)
    a = st.tuples(arr, st.lists(edit, min_size=1, max_size=4), st.sampled_from(["reserialise", "reserialise-len", "redecode"]), tags).map(
        lambda t: dict(
            {"kind": "history", "cls": "ReturnArrayMessage", "fields": t[0], "edits": [list(e) for e in t[1]], "mode": t[2]},
            **({"ityp": {"address": t[3][0], "values": t[3], "container": "list"}} if t[3] else {}),
        )
    )
    simple = st.one_of(
        st.tuples(st.just("MsgDoneMessage"), st.just("msg_id"), st_int_ct(U32), st_int_ct(U32)),
        st.tuples(st.just("ReturnRegMessage"), st.just("value"), st_int_ct(I32), st_int_ct(I32)),
        st.tuples(st.just("InitNewAppMessage"), st.just("max_qubits"), st_int_ct(U8), st_int_ct(U8)),
        st.tuples(st.just("StopAppMessage"), st.just("app_id"), st_int_ct(U32), st_int_ct(U32)),
        st.tuples(st.just("OpenEPRSocketMessage"), st.just("remote_node_id"), st_int_ct(I32), st_int_ct(I32)),
    )
    b = st.tuples(simple, st.sampled_from(["reserialise", "redecode"]), st.none() | st.lists(st.sampled_from(INT_TAGS), min_size=2, max_size=2)).map(
        lambda t: dict(
            {"kind": "history", "cls": t[0][0], "field": t[0][1], "v0": t[0][2], "v1": t[0][3], "mode": t[1]},
            **({"ityp": {t[0][1]: t[2][0], "edit": t[2][1]}} if t[2] else {}),
        )
    )
    # a code outside the enum the constructor takes (a newer peer may send one): set on the object, or arriving as bytes
    c = st.tuples(st.sampled_from([("ErrorMessage", "err_code"), ("SignalMessage", "signal")]), st_int_ct(U8), st.sampled_from(["assign", "bytes"])).map(
        lambda t: {"kind": "history", "cls": t[0][0], "field": t[0][1], "v1": t[1], "mode": "code-" + t[2]}
    )
    return a | b | c


def check_code(case) -> None:
    """an 8-bit code field holds any 8-bit value: it survives bytes -> message -> bytes and message -> bytes -> message"""
    from netqasm.backend import messages as M

    cls = getattr(M, case["cls"])
    direction = "return" if case["cls"] == "ErrorMessage" else "host"
    deser = M.deserialize_host_msg if direction == "host" else M.deserialize_return_msg
    m = cls(M.ErrorCode.GENERAL) if case["cls"] == "ErrorMessage" else cls(M.Signal.STOP)
    raw0 = bytes(m)
    if case["mode"] == "code-assign":
        setattr(m, case["field"], case["v1"])
        raw = bytes(m)
    else:
        # the same message as it would arrive from a peer that knows more codes: only the code byte differs
        probe = cls(M.ErrorCode.GENERAL) if case["cls"] == "ErrorMessage" else cls(M.Signal.STOP)
        setattr(probe, case["field"], (getattr(probe, case["field"]) + 1) % 256)
        diff = [i for i, (x, y) in enumerate(zip(raw0, bytes(probe))) if x != y]
        if len(diff) != 1:
            raise HarnessError(f"cannot locate the code byte of {case['cls']}")
        raw = raw0[: diff[0]] + bytes([case["v1"]]) + raw0[diff[0] + 1 :]
    try:
        back = deser(raw)
    except Exception as e:
        raise Failure(f"history:{case['mode']}:{case['cls']}:raises", case, f"deserialising raised {type(e).__name__}: {e}")
    if type(back) is not cls or getattr(back, case["field"]) != case["v1"] or bytes(back) != raw:
        raise Failure(f"history:{case['mode']}:{case['cls']}", case, f"{case['field']}={case['v1']} came back as {type(back).__name__} with {case['field']}={getattr(back, case['field'], None)!r}")


def _base_fields(case):
    if case["cls"] == "ReturnArrayMessage":
        return {"address": case["fields"]["address"], "values": list(case["fields"]["values"])}
    base = {
        "MsgDoneMessage": {"msg_id": 0},
        "ReturnRegMessage": {"register": "R3", "value": 0},
        "InitNewAppMessage": {"app_id": 7, "max_qubits": 0},
        "StopAppMessage": {"app_id": 0},
        "OpenEPRSocketMessage": {"app_id": 1, "epr_socket_id": 2, "remote_node_id": 0, "remote_epr_socket_id": 4, "min_fidelity": 5},
    }[case["cls"]]
    base = dict(base)
    base[case["field"]] = case["v0"]
    return base


def check_history(case) -> None:
    from netqasm.backend import messages as M

    if case["mode"].startswith("code-"):
        return check_code(case)

    direction = "return" if case["cls"] in ("ReturnArrayMessage", "MsgDoneMessage", "ReturnRegMessage") else "host"
    deser = M.deserialize_host_msg if direction == "host" else M.deserialize_return_msg
    f0 = _base_fields(case)
    ityp = case.get("ityp")
    sub = {"dir": direction, "cls": case["cls"], "fields": f0}
    if ityp:
        sub["ityp"] = {k: v for k, v in ityp.items() if k != "edit"}
    etags = (ityp or {}).get("values") or [None]

    def apply_edits(m, f):
        # the message object gets the numbers in their carrier types; f (what the oracle compares with) the plain numbers
        f = {k: (list(v) if isinstance(v, list) else v) for k, v in f.items()}
        if case["cls"] != "ReturnArrayMessage":
            setattr(m, case["field"], _typed(case["v1"], (ityp or {}).get("edit")))
            f[case["field"]] = case["v1"]
            return f
        for n, e in enumerate(case["edits"]):
            tag = etags[(n + 1) % len(etags)]
            if e[0] == "setitem" and f["values"]:
                i = e[1] % len(f["values"])
                m.values[i] = _typed(e[2], tag)
                f["values"][i] = e[2]
            elif e[0] == "append":
                m.values.append(_typed(e[1], tag))
                f["values"].append(e[1])
            elif e[0] == "pop" and f["values"]:
                m.values.pop()
                f["values"].pop()
            elif e[0] == "assign":
                m.values = _typed_values(list(e[1]), ityp)
                f["values"] = list(e[1])
            elif e[0] == "address":
                m.address = _typed(e[1], tag)
                f["address"] = e[1]
        return f

    def same(m, f, what):
        got = _fields_of(m, {"fields": {k: None for k in f if k != "register"}})
        want = {k: v for k, v in f.items() if k != "register"}
        if got != want:
            raise Failure(f"history:{case['mode']}:{case['cls']}", case, f"{what}: fields {got} but the message holds {want}")

    m = build_message(sub)
    raw0 = bytes(m)
    if case["mode"].startswith("reserialise"):
        if case["mode"] == "reserialise-len":
            len(m)
        f1 = apply_edits(m, f0)
        if case["mode"] == "reserialise-len":
            if len(m) != len(bytes(m)):
                raise Failure(f"history:{case['mode']}:{case['cls']}", case, f"len(msg)={len(m)} but it serialises to {len(bytes(m))} bytes")
        same(deser(bytes(m)), f1, "serialised, changed, serialised again; decoding the second byte string gives")
        # and a fresh message with the same final fields gives the same bytes
        fresh = build_message({"dir": direction, "cls": case["cls"], "fields": f1})
        if bytes(fresh) != bytes(m):
            raise Failure(f"history:{case['mode']}:{case['cls']}", case, "a changed message serialises differently from a fresh message with the same fields")
    else:
        d1 = deser(raw0)
        same(d1, f0, "first decode gives")
        apply_edits(d1, f0)
        d2 = deser(raw0)
        if d2 is d1:
            raise Failure(f"history:redecode:{case['cls']}:same-object", case, "decoding the same bytes twice returned one shared object")
        same(d2, f0, "after the first decoded object was changed, decoding the same bytes again gives")


def _type_labels(case) -> List[str]:
    """which integer types actually carry the values of this case (after the fall-back for values a type cannot hold)"""
    ityp = case.get("ityp")
    if not ityp:
        return []
    out = set()
    f = case["fields"]
    for k, v in f.items():
        if k == "values":
            tags = ityp.get("values") or ["int"]
            carriers = {_carrier(x, tags[i % len(tags)]) for i, x in enumerate(v)}
            out |= {"entry-type:" + c for c in carriers if c != "undefined"}
            if len(carriers - {"undefined"}) > 1:
                out.add("entry-type:mixed-in-one-array")
            if "undefined" in carriers and carriers - {"undefined", "int"}:
                out.add("entry-type:non-int-next-to-undefined")
            out.add("container:" + ityp.get("container", "list"))
        elif isinstance(v, int) and ityp.get(k):
            out.add("field-type:" + _carrier(v, ityp[k]))
    return sorted(out)


def _boundary(case) -> bool:
    f = case["fields"]
    if case["cls"] == "ReturnArrayMessage":
        vals = f["values"]
        return any(v is None for v in vals) and any(v is not None for v in vals)
    if case["cls"] == "SubroutineMessage":
        return len(f["sub"]["instrs"]) >= 1
    for v in f.values():
        if isinstance(v, int) and (v in (0, 255, 2**32 - 1, 2**31 - 1, -(2**31))):
            return True
        if isinstance(v, str):
            return True
    return False


def shard(ctx: Ctx) -> None:
    stt = ctx.stats
    n = 4000 if ctx.tier == "quick" else 30000

    def body(case):
        nt = _boundary(case)
        labels = [case["cls"]]
        if case["cls"] == "ReturnArrayMessage":
            vals = case["fields"]["values"]
            labels.append("array:mixed" if nt else ("array:empty" if not vals else "array:uniform"))
        if case.get("log_level"):
            labels.append("log-level:" + case["log_level"])
        labels.extend(_type_labels(case))
        small = len(str(case)) < 300
        if case["cls"] == "ReturnArrayMessage" and len(case["fields"]["values"]) > 64:
            labels.append("array:long" + (">256" if len(case["fields"]["values"]) > 256 else ""))
        stt.case(case, nt, labels, sample=case if small else None)
        check_message(case)

    ctx.search(st_message(), body, n, name="c15")

    def body_hist(case):
        stt.case(case, True, ["history:" + case["mode"], "history:" + case["cls"]] + (["history:typed-values"] if case.get("ityp") else []), sample=case)
        check_history(case)

    ctx.search(st_history(), body_hist, n // 4, name="c15-history", salt=5)
    if ctx.shard == 0:
        # complete enumeration of enum-valued messages and small None patterns
        from netqasm.backend import messages as M

        k = 0
        for e in M.ErrorCode:
            _try(ctx, {"dir": "return", "cls": "ErrorMessage", "fields": {"err_code": e.name}})
            k += 1
        for s in M.Signal:
            _try(ctx, {"dir": "host", "cls": "SignalMessage", "fields": {"signal": s.name}})
            k += 1
        import itertools

        for ln in range(0, 7):
            for pat in itertools.product([None, 0, -7], repeat=ln):
                c = {"dir": "return", "cls": "ReturnArrayMessage", "fields": {"address": ln, "values": list(pat)}}
                _try(ctx, c)
                stt.case(c, _boundary(c), ["enum:none-patterns"])
                k += 1
        # every carrier type x every small pattern of undefined / 0 / 1 / 200 entries, in every container; and every
        # fixed-size message with each carrier type (whatever the seed, each type meets each message class)
        for tag in INT_TAGS:
            for ln in range(1, 4):
                for pat in itertools.product([None, 0, 1, 200], repeat=ln):
                    if all(v is None for v in pat):
                        continue
                    for cont in CONTAINERS if ln == 2 else ["list"]:
                        c = {"dir": "return", "cls": "ReturnArrayMessage", "fields": {"address": 1, "values": list(pat)}, "ityp": {"address": tag, "values": [tag], "container": cont}}
                        _try(ctx, c)
                        stt.case(c, _boundary(c), ["enum:entry-types"] + _type_labels(c))
                        k += 1
            for v in (0, 1, 100, 255):
                for c in (
                    {"dir": "host", "cls": "InitNewAppMessage", "fields": {"app_id": v, "max_qubits": v}},
                    {"dir": "host", "cls": "StopAppMessage", "fields": {"app_id": v}},
                    {"dir": "host", "cls": "OpenEPRSocketMessage", "fields": {"app_id": v, "epr_socket_id": v, "remote_node_id": v, "remote_epr_socket_id": v, "min_fidelity": v}},
                    {"dir": "return", "cls": "MsgDoneMessage", "fields": {"msg_id": v}},
                    {"dir": "return", "cls": "ReturnRegMessage", "fields": {"register": "M%d" % (v % 16), "value": v}},
                ):
                    c = dict(c, ityp={f: tag for f in c["fields"] if f != "register"})
                    _try(ctx, c)
                    stt.case(c, True, ["enum:field-types"] + _type_labels(c))
                    k += 1
        # every small value of the id fields (a value that happens to equal a length or a type code must not matter)
        for v in range(0, 301):
            for c in (
                {"dir": "host", "cls": "InitNewAppMessage", "fields": {"app_id": v, "max_qubits": v % 256}},
                {"dir": "host", "cls": "InitNewAppMessage", "fields": {"app_id": v, "max_qubits": 5}},
                {"dir": "host", "cls": "StopAppMessage", "fields": {"app_id": v}},
                {"dir": "host", "cls": "OpenEPRSocketMessage", "fields": {"app_id": v, "epr_socket_id": 0, "remote_node_id": 1, "remote_epr_socket_id": 0, "min_fidelity": 100}},
                {"dir": "host", "cls": "OpenEPRSocketMessage", "fields": {"app_id": 1, "epr_socket_id": v, "remote_node_id": v, "remote_epr_socket_id": v, "min_fidelity": v % 256}},
                {"dir": "return", "cls": "MsgDoneMessage", "fields": {"msg_id": v}},
                {"dir": "return", "cls": "ReturnRegMessage", "fields": {"register": "R%d" % (v % 16), "value": v}},
            ):
                _try(ctx, c)
                k += 1
        stt.exhaustive_domains["enum members + all {None,0,-7} array patterns up to length 6 + integer carrier types x {None,0,1,200} patterns up to length 3 x containers + carrier types x fixed-size messages + id fields 0..300"] = k


def _try(ctx, case):
    ctx.attempt(case, check_message, case)


def replay(case):
    try:
        if case.get("kind") == "history":
            check_history(case)
            return None
        check_message(case)
    except Failure as f:
        return f
    return None
