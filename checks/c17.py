"""C17 — printed assembly parses back to the same instruction."""
from __future__ import annotations

from vlib import gen_instr as g
from vlib.runner import Ctx, Failure

LEVEL = "exploration"
RULE = (
    "C01 generator (all classes of all flavours, boundary-biased operands incl. negative integers/addresses, entries and "
    "slices with register indices): single instructions printed with str() and parsed back with the same flavour; whole "
    "subroutines text->binary->text fixed point (fresh decoder and one decoder object kept for the whole run); every parse with a "
    "fresh flavour object and with a long-lived one after which other flavours were created; instructions printed, changed by "
    "field assignment and printed again; immediates that are numpy integers of every width that holds the value; array-entry / "
    "array-slice operands (mutable objects) edited in place - on an instruction that was printed before (str, debug_str, f-string, "
    "Subroutine.__str__) and on an earlier parse result, after which the same text is parsed again - for single instructions and "
    "for whole subroutines.  Non-trivial = instruction with >=1 operand (single) or subroutine with "
    ">=2 distinct classes; distinct by printed text.  Templates are outside the quantifier"
)
ASSUMPTIONS = ["str(instr) is the printed form meant by the property; lineno is not part of instruction identity"]
SHARDS = {"quick": 1, "thorough": 16}


_LONG_LIVED = {}
_DESER = {}


def _flavour(fname: str, policy: str):
    """`fresh`: a new flavour object per parse; `long-lived`: one object per flavour kept for the whole process while
    objects of the other flavours keep being created after it (as happens whenever anything is parsed without flavour=)"""
    if policy == "fresh":
        return g.FLAVOURS[fname]()
    if fname not in _LONG_LIVED:
        _LONG_LIVED[fname] = g.FLAVOURS[fname]()
    for other in g.FLAVOURS:
        if other != fname:
            g.FLAVOURS[other]()
    return _LONG_LIVED[fname]


def _parse(text: str, fname: str, policy: str = "fresh"):
    from netqasm.lang.parsing.text import parse_text_subroutine

    return parse_text_subroutine(text, flavour=_flavour(fname, policy))


def check_single(fname: str, clsname: str, vals) -> str:
    cls = g.class_by_name(fname, clsname)
    instr = g.build(cls, vals)
    text = str(instr)
    case = {"kind": "instr", "flavour": fname, "cls": clsname, "vals": vals, "text": text}
    for policy in ("fresh", "long-lived"):
        try:
            sub = _parse(text, fname, policy)
        except Exception as e:
            raise Failure(f"parse-raises:{fname}:{cls.mnemonic}", case, f"printed text {text!r} does not parse ({policy} flavour object): {type(e).__name__}: {e}")
        got = sub.instructions
        if len(got) != 1 or type(got[0]) is not cls or got[0] != instr:
            raise Failure(f"parse-differs:{fname}:{cls.mnemonic}" + ("" if policy == "fresh" else ":long-lived-flavour"), case,
                          f"{text!r} parsed back ({policy} flavour object) as {[type(i).__module__.split('.')[-1] + '.' + type(i).__name__ + ' ' + str(i) for i in got]}")
    return text


def check_reprint(fname: str, clsname: str, vals, vals2) -> str:
    """an instruction that was printed, then changed through its fields, prints its current operands"""
    cls = g.class_by_name(fname, clsname)
    instr = g.build(cls, vals)
    text0 = str(instr)
    for (name, kind), v in zip(g.shape_of(cls), vals2):
        setattr(instr, name, g.operand_from_json(kind, v))
    text = str(instr)
    case = {"kind": "reprint", "flavour": fname, "cls": clsname, "vals": vals, "vals2": vals2, "text": text}
    fresh = g.build(cls, vals2)
    if instr != fresh:
        return text  # assignment is not a supported way to change this class: nothing to check
    if text != str(fresh):
        raise Failure(f"reprint:{fname}:{cls.mnemonic}", case, f"printed as {text0!r}, fields changed to those of {str(fresh)!r}, but it still prints {text!r}")
    try:
        got = _parse(text, fname).instructions
    except Exception as e:
        raise Failure(f"reprint:parse-raises:{fname}:{cls.mnemonic}", case, f"{type(e).__name__}: {e}")
    if len(got) != 1 or got[0] != instr:
        raise Failure(f"reprint:{fname}:{cls.mnemonic}", case, f"second print {text!r} parses to a different instruction")
    return text


def check_sub(j) -> None:
    from netqasm.lang.parsing import deserialize

    fname = j["flavour"]
    sub = g.build_subroutine(j)
    text1 = "\n".join(str(i) for i in sub.instructions)
    case = {"kind": "sub", **j}
    try:
        s2 = _parse(f"# NETQASM {j['version'][0]}.{j['version'][1]}\n# APPID {j['app_id']}\n" + text1, fname)
    except Exception as e:
        raise Failure("sub:parse-raises", case, f"printed subroutine does not parse: {type(e).__name__}: {e}")
    if s2.instructions != sub.instructions:
        raise Failure("sub:parse-differs", case, "printed subroutine parses to different instructions")
    if s2.app_id != j["app_id"] or tuple(s2.netqasm_version) != tuple(j["version"]):
        raise Failure("sub:preamble", case, f"preamble came back as {s2.app_id} {s2.netqasm_version}")
    s3 = deserialize(bytes(s2), flavour=g.FLAVOURS[fname]())
    text3 = "\n".join(str(i) for i in s3.instructions)
    if text3 != text1:
        raise Failure("sub:not-fixed-point", case, f"text->binary->text changed:\n{text1}\n---\n{text3}")
    # the same through a decoder object that lives as long as the process (a controller keeps one)
    from netqasm.lang.parsing.binary import Deserializer

    if fname not in _DESER:
        _DESER[fname] = Deserializer(g.FLAVOURS[fname]())
    try:
        s4 = _DESER[fname].deserialize_subroutine(bytes(s2))
    except Exception as e:
        raise Failure("sub:long-lived-decoder-raises", case, f"{type(e).__name__}: {e}")
    text4 = "\n".join(str(i) for i in s4.instructions)
    if text4 != text1:
        raise Failure("sub:not-fixed-point:long-lived-decoder", case, f"text->binary->text through a decoder that decoded other subroutines before changed:\n{text1}\n---\n{text4[:600]}")


# ------------------------------------------------------------------ numpy integers as immediate values

# every numpy integer type with the interval of values it can hold
NP_TYPES = {
    "uint8": (0, 2**8 - 1),
    "int8": (-(2**7), 2**7 - 1),
    "uint16": (0, 2**16 - 1),
    "int16": (-(2**15), 2**15 - 1),
    "uint32": (0, 2**32 - 1),
    "int32": (-(2**31), 2**31 - 1),
    "uint64": (0, 2**64 - 1),
    "int64": (-(2**63), 2**63 - 1),
}


def np_types_for(v: int):
    return [t for t, (lo, hi) in NP_TYPES.items() if lo <= v <= hi]


def _has_kind(cls, kinds) -> bool:
    return any(k in kinds for _n, k in g.shape_of(cls))


def st_instr_with(fname: str, kinds):
    from hypothesis import strategies as st

    return st.one_of([g.st_instr_of(c) for c in g.flavour_classes(fname) if _has_kind(c, kinds)])


def check_nptype(fname: str, clsname: str, vals, nptypes) -> str:
    """an immediate whose (in range) value is a numpy integer instead of an int: same printed text duties"""
    import numpy as np
    from netqasm.lang.operand import Immediate
    from netqasm.lang.parsing import deserialize

    cls = g.class_by_name(fname, clsname)
    kw = {}
    for (name, kind), v, t in zip(g.shape_of(cls), vals, nptypes):
        kw[name] = g.operand_from_json(kind, v) if t is None else Immediate(getattr(np, t)(v))
    instr = cls(**kw)
    case = {"kind": "nptype", "flavour": fname, "cls": clsname, "vals": vals, "nptypes": nptypes}
    try:
        text = str(instr)
    except Exception as e:
        raise Failure(f"nptype:print-raises:{fname}:{cls.mnemonic}", case, f"instruction with numpy integer immediates {nptypes} of values {vals} cannot be printed: {type(e).__name__}: {e}")
    case["text"] = text
    try:
        sub = _parse("# NETQASM 0.0\n# APPID 0\n" + text, fname)
    except Exception as e:
        raise Failure(f"nptype:parse-raises:{fname}:{cls.mnemonic}", case, f"printed text {text!r} (numpy immediates {nptypes}) does not parse: {type(e).__name__}: {e}")
    got = sub.instructions
    if len(got) != 1 or type(got[0]) is not cls or got[0] != instr or got[0] != g.build(cls, vals):
        raise Failure(f"nptype:parse-differs:{fname}:{cls.mnemonic}", case, f"{text!r} (numpy immediates {nptypes} of values {vals}) parsed back as {[str(i) for i in got]}")
    back = deserialize(bytes(sub), flavour=g.FLAVOURS[fname]())
    text3 = "\n".join(str(i) for i in back.instructions)
    if text3 != text:
        raise Failure(f"nptype:not-fixed-point:{fname}:{cls.mnemonic}", case, f"text->binary->text changed {text!r} into {text3!r}")
    return text


# ------------------------------------------------------------------ array operands edited in place

PRINT_ROUTES = ["str", "debug_str", "fstring", "subroutine"]
_ARRAY_FIELDS = {"entry": ["address", "index"], "slice": ["address", "start", "stop"]}
_JSON_KEY = {"address": "addr", "index": "idx", "start": "start", "stop": "stop"}


def _touch(instr, route: str) -> None:
    """print the instruction the way a log / a user would, result not used"""
    if route == "str":
        str(instr)
    elif route == "debug_str":
        instr.debug_str
    elif route == "fstring":
        f"{instr}"
    else:
        from netqasm.lang.subroutine import Subroutine

        str(Subroutine(instructions=[instr], netqasm_version=(0, 0), app_id=0))


def _edit_in_place(operand, field: str, jsonval) -> None:
    """change one attribute of a (mutable) ArrayEntry / ArraySlice; the instruction that holds it is not assigned to"""
    from netqasm.lang.operand import Address

    setattr(operand, field, Address(jsonval) if field == "address" else g.reg_from_str(jsonval))


def _merged(cls, vals, vals2, mask):
    """JSON values of the instruction after the edits of `mask` (list of [operand position, field])"""
    import copy

    out = copy.deepcopy(vals)
    for pos, field in mask:
        out[pos][_JSON_KEY[field]] = vals2[pos][_JSON_KEY[field]]
    return out


def _apply_mask(instr, cls, vals2, mask) -> None:
    shape = g.shape_of(cls)
    for pos, field in mask:
        _edit_in_place(getattr(instr, shape[pos][0]), field, vals2[pos][_JSON_KEY[field]])


def st_mask(cls):
    from hypothesis import strategies as st

    fields = [[pos, f] for pos, (_n, k) in enumerate(g.shape_of(cls)) for f in _ARRAY_FIELDS.get(k, [])]
    return st.lists(st.sampled_from(fields), min_size=1, max_size=len(fields), unique_by=lambda x: tuple(x))


def check_inplace(fname: str, clsname: str, vals, vals2, mask, route: str) -> str:
    """History: print - parse - edit the array operands of the parse result in place - parse the same text again - edit the
    array operands of the printed instruction in place - print again.  At every moment the printed text is that of the
    instruction as it is at that moment, and the same text always parses to the same instruction."""
    cls = g.class_by_name(fname, clsname)
    instr = g.build(cls, vals)
    ref = g.build(cls, vals)  # independent objects, never printed before and never edited
    exp_vals = _merged(cls, vals, vals2, mask)
    exp = g.build(cls, exp_vals)
    text_exp = str(exp)  # first print of a fresh object
    _touch(instr, route)
    text0 = str(instr)
    case = {"kind": "inplace", "flavour": fname, "cls": clsname, "vals": vals, "vals2": vals2, "mask": mask, "route": route, "text": text0}
    sig = f"{fname}:{cls.mnemonic}"

    def parse1(text, what):
        try:
            got = _parse(text, fname).instructions
        except Exception as e:
            raise Failure(f"inplace:parse-raises:{sig}", case, f"{what}: {text!r} does not parse: {type(e).__name__}: {e}")
        if len(got) != 1 or type(got[0]) is not cls:
            raise Failure(f"inplace:parse-differs:{sig}", case, f"{what}: {text!r} parsed as {[str(i) for i in got]}")
        return got[0]

    p1 = parse1(text0, "first parse")
    if p1 != ref:
        raise Failure(f"inplace:parse-differs:{sig}", case, f"first parse: {text0!r} parsed as {str(p1)!r}")
    # 1. the parse result is printed (logged) and then adapted in place
    _touch(p1, route)
    _apply_mask(p1, cls, vals2, mask)
    if p1 != exp:
        return text0  # editing in place is not a supported way to change this class: nothing to check
    text_p1 = str(p1)
    if text_p1 != text_exp:
        raise Failure(f"inplace:stale-print:parse-result:{sig}", case, f"parse result of {text0!r} was printed ({route}), its array operand edited in place {mask} to that of {text_exp!r}, but it prints {text_p1!r}")
    if parse1(text_p1, "parse result edited in place, printed") != p1:
        raise Failure(f"inplace:stale-print:parse-result:{sig}", case, f"edited parse result prints {text_p1!r}, which parses to a different instruction")
    # 2. the untouched instruction still prints the same text, and that text still parses to the same instruction
    if str(instr) != text0 or instr != ref:
        raise Failure(f"inplace:edit-of-parse-result-leaks:{sig}", case, f"instruction printing {text0!r} prints {str(instr)!r} after the result of parsing its text was edited in place")
    p2 = parse1(text0, "second parse of the same text")
    if p2 != ref or p2 != instr:
        raise Failure(f"inplace:reparse-differs:{sig}", case, f"{text0!r} parsed as {str(p2)!r} after the result of an earlier parse of the same text was edited in place {mask} (to {text_exp!r})")
    # 3. the printed instruction itself is adapted in place and printed again
    _apply_mask(instr, cls, vals2, mask)
    text1 = str(instr)
    if instr != exp or text1 != text_exp:
        raise Failure(f"inplace:stale-print:{sig}", case, f"printed ({route}) as {text0!r}, array operand edited in place {mask} to that of {text_exp!r}, but it prints {text1!r}")
    if parse1(text1, "instruction edited in place, printed") != instr:
        raise Failure(f"inplace:stale-print:{sig}", case, f"after the in-place edit it prints {text1!r}, which parses to a different instruction")
    return text0 + " -> " + text1


def st_subroutine_arrays(fname: str, max_len: int):
    """subroutines in which instructions with array operands are frequent"""
    from hypothesis import strategies as st

    return st.fixed_dictionaries(
        {
            "flavour": st.just(fname),
            "app_id": st.integers(0, 65535),
            "version": st.tuples(g.st_u8, g.st_u8).map(list),
            "instrs": st.lists(g.st_instr(fname) | st_instr_with(fname, ("entry", "slice")), min_size=1, max_size=max_len),
        }
    )


def array_positions(j):
    """[instruction position, operand position, field] of everything that can be edited in place in a subroutine"""
    out = []
    for ipos, (clsname, _m, _v) in enumerate(j["instrs"]):
        cls = g.class_by_name(j["flavour"], clsname)
        for pos, (_n, k) in enumerate(g.shape_of(cls)):
            for f in _ARRAY_FIELDS.get(k, []):
                out.append([ipos, pos, f])
    return out


def check_sub_history(j, edits, route: str) -> int:
    """whole subroutines: print - parse - print the parse result - edit some of its array operands in place; then (a) the
    edited subroutine prints text that parses back to it and is a fixed point of text->binary->text, (b) the text printed
    first still parses to the original instructions and is still a fixed point.  `edits` = [[instr pos, operand pos, field,
    json value], ...]"""
    from netqasm.lang.parsing import deserialize

    fname = j["flavour"]
    pre = f"# NETQASM {j['version'][0]}.{j['version'][1]}\n# APPID {j['app_id']}\n"
    sub = g.build_subroutine(j)
    text1 = "\n".join(str(i) for i in sub.instructions)
    case = {"kind": "sub-history", **j, "edits": edits, "route": route}

    def parse(text, what):
        try:
            return _parse(pre + text, fname)
        except Exception as e:
            raise Failure("sub-history:parse-raises", case, f"{what} does not parse: {type(e).__name__}: {e}")

    def fixed_point(parsed, text, what, sig):
        back = deserialize(bytes(parsed), flavour=g.FLAVOURS[fname]())
        text3 = "\n".join(str(i) for i in back.instructions)
        if text3 != text:
            raise Failure(sig, case, f"{what}: text->binary->text changed:\n{text[:500]}\n---\n{text3[:500]}")

    s2 = parse(text1, "printed subroutine")
    if s2.instructions != sub.instructions:
        raise Failure("sub-history:parse-differs", case, "printed subroutine parses to different instructions")
    if route == "subroutine":
        str(s2)
    else:
        for i in s2.instructions:
            _touch(i, route)
    # expected state after the edits, built from fresh objects
    import copy

    j_exp = copy.deepcopy(j)
    for ipos, pos, field, v in edits:
        j_exp["instrs"][ipos][2][pos][_JSON_KEY[field]] = v
        cls = g.class_by_name(fname, j["instrs"][ipos][0])
        _edit_in_place(getattr(s2.instructions[ipos], g.shape_of(cls)[pos][0]), field, v)
    exp = g.build_subroutine(j_exp)
    n_changed = sum(1 for a, b in zip(exp.instructions, sub.instructions) if a != b)
    if s2.instructions == exp.instructions:
        text2 = "\n".join(str(i) for i in s2.instructions)
        text_exp = "\n".join(str(i) for i in exp.instructions)
        if text2 != text_exp:
            bad = [(a, b) for a, b in zip(text2.splitlines(), text_exp.splitlines()) if a != b]
            raise Failure("sub-history:stale-print", case, f"parsed subroutine was printed ({route}), {len(edits)} array operands edited in place; {len(bad)} lines are not those of the instructions as they are now, e.g. prints {bad[0][0]!r}, is {bad[0][1]!r}")
        s5 = parse(text2, "subroutine printed after in-place edits")
        if s5.instructions != s2.instructions:
            raise Failure("sub-history:stale-print", case, "subroutine printed after in-place edits parses to different instructions")
        fixed_point(s5, text2, "subroutine printed after in-place edits", "sub-history:stale-print:not-fixed-point")
    # the text printed first: same meaning as before
    if "\n".join(str(i) for i in sub.instructions) != text1:
        raise Failure("sub-history:edit-of-parse-result-leaks", case, "the original subroutine prints differently after its parse result was edited in place")
    s6 = parse(text1, "text printed first, parsed a second time")
    if s6.instructions != sub.instructions:
        bad = [(str(a), str(b)) for a, b in zip(sub.instructions, s6.instructions) if a != b]
        raise Failure("sub-history:reparse-differs", case, f"after the result of the first parse was edited in place, the same text parses to different instructions, e.g. {bad[:2]}")
    fixed_point(s6, text1, "text printed first, second parse", "sub-history:reparse-not-fixed-point")
    return n_changed


def shard(ctx: Ctx) -> None:
    stt = ctx.stats
    n = 4000 if ctx.tier == "quick" else 20000
    for fi, fname in enumerate(g.FLAVOURS):

        def body(j, fname=fname):
            clsname, mn, vals = j
            text = check_single(fname, clsname, vals)
            stt.case(text + "|" + fname, len(vals) >= 1, [f"single:{fname}", "neg" if "-" in text else "nonneg"], sample={"flavour": fname, "text": text})

        ctx.search(g.st_instr(fname), body, n // 3, name=f"c17-{fname}", salt=fi)

        def body_reprint(t, fname=fname):
            cls = g.class_by_name(fname, t[0][0])
            from hypothesis import strategies as st

            vals2 = t[1].draw(st.tuples(*[g.st_operand(k) for _, k in g.shape_of(cls)]).map(list))
            text = check_reprint(fname, t[0][0], t[0][2], vals2)
            stt.case("reprint|" + text + "|" + str(t[0][2]) + "|" + fname, len(vals2) >= 1 and vals2 != t[0][2], [f"reprint:{fname}"])

        from hypothesis import strategies as st

        ctx.search(st.tuples(g.st_instr(fname), st.data()), body_reprint, n // 8, name=f"c17-reprint-{fname}", salt=20 + fi)

        def body_sub(j):
            stt.case(j, len({c for c, _m, _v in j["instrs"]}) >= 2, [f"sub:{j['flavour']}"])
            check_sub(j)

        ctx.search(g.st_subroutine(fname, 15), body_sub, n // 12, name=f"c17-sub-{fname}", salt=10 + fi)

        # numpy integers as immediate values (angles / constants computed with numpy)
        def body_np(t, fname=fname):
            (clsname, _mn, vals), data = t
            cls = g.class_by_name(fname, clsname)
            nptypes = [data.draw(st.sampled_from(np_types_for(v))) if k in ("u8", "i32") else None for (_n, k), v in zip(g.shape_of(cls), vals)]
            text = check_nptype(fname, clsname, vals, nptypes)
            stt.case("np|" + text + "|" + str(nptypes) + "|" + fname, True, [f"nptype:{fname}"] + sorted({"np." + x for x in nptypes if x}))

        ctx.search(st.tuples(st_instr_with(fname, ("u8", "i32")), st.data()), body_np, n // 10, name=f"c17-nptype-{fname}", salt=30 + fi)

        # array operands edited in place, on printed instructions and on parse results
        def body_inplace(t, fname=fname):
            (clsname, _mn, vals), data = t
            cls = g.class_by_name(fname, clsname)
            vals2 = data.draw(st.tuples(*[g.st_operand(k) for _, k in g.shape_of(cls)]).map(list))
            mask = data.draw(st_mask(cls))
            route = data.draw(st.sampled_from(PRINT_ROUTES))
            text = check_inplace(fname, clsname, vals, vals2, mask, route)
            stt.case("inplace|" + text + "|" + fname, _merged(cls, vals, vals2, mask) != vals, [f"inplace:{fname}", "inplace-route:" + route] + ["inplace-field:" + f for _p, f in mask])

        ctx.search(st.tuples(st_instr_with(fname, ("entry", "slice")), st.data()), body_inplace, n // 10, name=f"c17-inplace-{fname}", salt=40 + fi)

        def body_sub_history(t, fname=fname):
            j, data = t
            where = array_positions(j)
            edits = []
            if where:
                for ipos, pos, f in data.draw(st.lists(st.sampled_from(where), min_size=1, max_size=6, unique_by=lambda x: tuple(x))):
                    edits.append([ipos, pos, f, data.draw(g.st_i32 if f == "address" else g.st_reg)])
            route = data.draw(st.sampled_from(PRINT_ROUTES))
            n_changed = check_sub_history(j, edits, route)
            stt.case(["sub-history", j, edits], n_changed >= 1, [f"sub-history:{fname}", "sub-history-route:" + route])

        ctx.search(st.tuples(st_subroutine_arrays(fname, 10), st.data()), body_sub_history, n // 25, name=f"c17-sub-history-{fname}", salt=50 + fi)
    if ctx.shard == 0:
        # the same printed line / the same 7 bytes mean different instructions in different flavours: text -> binary -> text for
        # every class with all-zero operands, flavours alternating in opcode order (both orders)
        import copy

        from checks.c02 import _ZERO
        from netqasm.lang.parsing import deserialize
        from vlib import refenc

        items = []
        fl = list(g.FLAVOURS)
        for fname in fl:
            for cls in g.flavour_classes(fname):
                op = refenc.TABLE[fname].get(cls.mnemonic)
                if op is not None:
                    items.append((op[0], fname, cls))
        n_x = 0
        for order in (sorted(items, key=lambda t: (t[0], fl.index(t[1]))), sorted(items, key=lambda t: (t[0], -fl.index(t[1])))):
            for _op, fname, cls in order:
                vals = [copy.deepcopy(_ZERO[k]) for _n, k in g.shape_of(cls)]
                case = {"kind": "cross", "flavour": fname, "cls": cls.__name__, "vals": vals}
                n_x += 1

                def one(fname=fname, cls=cls, vals=vals, case=case):
                    instr = g.build(cls, vals)
                    text = str(instr)
                    sub = _parse("# NETQASM 0.0\n# APPID 0\n" + text, fname)
                    back = deserialize(bytes(sub), flavour=_flavour(fname, "long-lived"))
                    text2 = "\n".join(str(i) for i in back.instructions)
                    if text2 != text or [type(i) for i in back.instructions] != [cls]:
                        raise Failure(f"sub:not-fixed-point:cross-flavour:{fname}:{cls.mnemonic}", case, f"{text!r} of flavour {fname} -> binary -> text gave {text2!r} ({[type(i).__module__.split('.')[-1] + '.' + type(i).__name__ for i in back.instructions]}) after other flavours decoded the same bytes")

                ctx.attempt(case, one)
        stt.exhaustive_domains["every class, all-zero operands, text->binary->text with flavours alternating in opcode order"] = n_x
        # enumerated: every class with the field-distinguishing valuations of C02
        from checks.c02 import enumerated_cases

        k = 0
        for fname in g.FLAVOURS:
            for cls, vals in enumerated_cases(fname):
                k += 1
                if ctx.attempt({"kind": "instr", "flavour": fname, "cls": cls.__name__, "vals": vals}, check_single, fname, cls.__name__, vals):
                    stt.case(str([cls.__name__, vals]) + "|" + fname, True, ["enum"])
        stt.exhaustive_domains["all classes x field-distinguishing valuations"] = k


def replay(case):
    try:
        if case["kind"] == "cross":
            return None  # order-dependent by construction: replayed by the run itself
        if case["kind"] == "reprint":
            check_reprint(case["flavour"], case["cls"], case["vals"], case["vals2"])
        elif case["kind"] == "nptype":
            check_nptype(case["flavour"], case["cls"], case["vals"], case["nptypes"])
        elif case["kind"] == "inplace":
            check_inplace(case["flavour"], case["cls"], case["vals"], case["vals2"], case["mask"], case["route"])
        elif case["kind"] == "sub-history":
            check_sub_history({k: case[k] for k in ("flavour", "app_id", "version", "instrs")}, case["edits"], case["route"])
        elif case["kind"] == "instr":
            check_single(case["flavour"], case["cls"], case["vals"])
        else:
            check_sub({k: case[k] for k in ("flavour", "app_id", "version", "instrs")})
    except Failure as f:
        return f
    return None
