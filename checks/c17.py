"""C17 — printed assembly parses back to the same instruction."""
from __future__ import annotations

from vlib import gen_instr as g
from vlib.runner import Ctx, Failure

LEVEL = "exploration"
RULE = (
    "C01 generator (all classes of all flavours, boundary-biased operands incl. negative integers/addresses, entries and "
    "slices with register indices): single instructions printed with str() and parsed back with the same flavour; whole "
    "subroutines text->binary->text fixed point (fresh decoder and one decoder object kept for the whole run); every parse with a "
    "fresh flavour object and with a long-lived one after which other flavours were created; instructions printed, changed by "
    "field assignment and printed again.  Non-trivial = instruction with >=1 operand (single) or subroutine with "
    ">=2 distinct classes; distinct by printed text.  Templates are outside the quantifier"
)
ASSUMPTIONS = ["str(instr) is the printed form meant by the property; lineno is not part of instruction identity"]
SHARDS = {"quick": 1, "thorough": 16}


_LONG_LIVED = {}
_DESER = {}


def _flavour(fname: str, policy: str):
    """`fresh`: a new flavour object per parse; `long-lived`: one object per flavour kept for the whole process while
    objects of the other flavours keep being created after it (as happens whenever anything is parsed without flavour=)"""
    if policy == "fresh":
        return g.FLAVOURS[fname]()
    if fname not in _LONG_LIVED:
        _LONG_LIVED[fname] = g.FLAVOURS[fname]()
    for other in g.FLAVOURS:
        if other != fname:
            g.FLAVOURS[other]()
    return _LONG_LIVED[fname]


def _parse(text: str, fname: str, policy: str = "fresh"):
    from netqasm.lang.parsing.text import parse_text_subroutine

    return parse_text_subroutine(text, flavour=_flavour(fname, policy))


def check_single(fname: str, clsname: str, vals) -> str:
    cls = g.class_by_name(fname, clsname)
    instr = g.build(cls, vals)
    text = str(instr)
    case = {"kind": "instr", "flavour": fname, "cls": clsname, "vals": vals, "text": text}
    for policy in ("fresh", "long-lived"):
        try:
            sub = _parse(text, fname, policy)
        except Exception as e:
            raise Failure(f"parse-raises:{fname}:{cls.mnemonic}", case, f"printed text {text!r} does not parse ({policy} flavour object): {type(e).__name__}: {e}")
        got = sub.instructions
        if len(got) != 1 or type(got[0]) is not cls or got[0] != instr:
            raise Failure(f"parse-differs:{fname}:{cls.mnemonic}" + ("" if policy == "fresh" else ":long-lived-flavour"), case,
                          f"{text!r} parsed back ({policy} flavour object) as {[type(i).__module__.split('.')[-1] + '.' + type(i).__name__ + ' ' + str(i) for i in got]}")
    return text


def check_reprint(fname: str, clsname: str, vals, vals2) -> str:
    """an instruction that was printed, then changed through its fields, prints its current operands"""
    cls = g.class_by_name(fname, clsname)
    instr = g.build(cls, vals)
    text0 = str(instr)
    for (name, kind), v in zip(g.shape_of(cls), vals2):
        setattr(instr, name, g.operand_from_json(kind, v))
    text = str(instr)
    case = {"kind": "reprint", "flavour": fname, "cls": clsname, "vals": vals, "vals2": vals2, "text": text}
    fresh = g.build(cls, vals2)
    if instr != fresh:
        return text  # assignment is not a supported way to change this class: nothing to check
    if text != str(fresh):
        raise Failure(f"reprint:{fname}:{cls.mnemonic}", case, f"printed as {text0!r}, fields changed to those of {str(fresh)!r}, but it still prints {text!r}")
    try:
        got = _parse(text, fname).instructions
    except Exception as e:
        raise Failure(f"reprint:parse-raises:{fname}:{cls.mnemonic}", case, f"{type(e).__name__}: {e}")
    if len(got) != 1 or got[0] != instr:
        raise Failure(f"reprint:{fname}:{cls.mnemonic}", case, f"second print {text!r} parses to a different instruction")
    return text


def check_sub(j) -> None:
    from netqasm.lang.parsing import deserialize

    fname = j["flavour"]
    sub = g.build_subroutine(j)
    text1 = "\n".join(str(i) for i in sub.instructions)
    case = {"kind": "sub", **j}
    try:
        s2 = _parse(f"# NETQASM {j['version'][0]}.{j['version'][1]}\n# APPID {j['app_id']}\n" + text1, fname)
    except Exception as e:
        raise Failure("sub:parse-raises", case, f"printed subroutine does not parse: {type(e).__name__}: {e}")
    if s2.instructions != sub.instructions:
        raise Failure("sub:parse-differs", case, "printed subroutine parses to different instructions")
    if s2.app_id != j["app_id"] or tuple(s2.netqasm_version) != tuple(j["version"]):
        raise Failure("sub:preamble", case, f"preamble came back as {s2.app_id} {s2.netqasm_version}")
    s3 = deserialize(bytes(s2), flavour=g.FLAVOURS[fname]())
    text3 = "\n".join(str(i) for i in s3.instructions)
    if text3 != text1:
        raise Failure("sub:not-fixed-point", case, f"text->binary->text changed:\n{text1}\n---\n{text3}")
    # the same through a decoder object that lives as long as the process (a controller keeps one)
    from netqasm.lang.parsing.binary import Deserializer

    if fname not in _DESER:
        _DESER[fname] = Deserializer(g.FLAVOURS[fname]())
    try:
        s4 = _DESER[fname].deserialize_subroutine(bytes(s2))
    except Exception as e:
        raise Failure("sub:long-lived-decoder-raises", case, f"{type(e).__name__}: {e}")
    text4 = "\n".join(str(i) for i in s4.instructions)
    if text4 != text1:
        raise Failure("sub:not-fixed-point:long-lived-decoder", case, f"text->binary->text through a decoder that decoded other subroutines before changed:\n{text1}\n---\n{text4[:600]}")


def shard(ctx: Ctx) -> None:
    stt = ctx.stats
    n = 4000 if ctx.tier == "quick" else 20000
    for fi, fname in enumerate(g.FLAVOURS):

        def body(j, fname=fname):
            clsname, mn, vals = j
            text = check_single(fname, clsname, vals)
            stt.case(text + "|" + fname, len(vals) >= 1, [f"single:{fname}", "neg" if "-" in text else "nonneg"], sample={"flavour": fname, "text": text})

        ctx.search(g.st_instr(fname), body, n // 3, name=f"c17-{fname}", salt=fi)

        def body_reprint(t, fname=fname):
            cls = g.class_by_name(fname, t[0][0])
            from hypothesis import strategies as st

            vals2 = t[1].draw(st.tuples(*[g.st_operand(k) for _, k in g.shape_of(cls)]).map(list))
            text = check_reprint(fname, t[0][0], t[0][2], vals2)
            stt.case("reprint|" + text + "|" + str(t[0][2]) + "|" + fname, len(vals2) >= 1 and vals2 != t[0][2], [f"reprint:{fname}"])

        from hypothesis import strategies as st

        ctx.search(st.tuples(g.st_instr(fname), st.data()), body_reprint, n // 8, name=f"c17-reprint-{fname}", salt=20 + fi)

        def body_sub(j):
            stt.case(j, len({c for c, _m, _v in j["instrs"]}) >= 2, [f"sub:{j['flavour']}"])
            check_sub(j)

        ctx.search(g.st_subroutine(fname, 15), body_sub, n // 12, name=f"c17-sub-{fname}", salt=10 + fi)
    if ctx.shard == 0:
        # the same printed line / the same 7 bytes mean different instructions in different flavours: text -> binary -> text for
        # every class with all-zero operands, flavours alternating in opcode order (both orders)
        import copy

        from checks.c02 import _ZERO
        from netqasm.lang.parsing import deserialize
        from vlib import refenc

        items = []
        fl = list(g.FLAVOURS)
        for fname in fl:
            for cls in g.flavour_classes(fname):
                op = refenc.TABLE[fname].get(cls.mnemonic)
                if op is not None:
                    items.append((op[0], fname, cls))
        n_x = 0
        for order in (sorted(items, key=lambda t: (t[0], fl.index(t[1]))), sorted(items, key=lambda t: (t[0], -fl.index(t[1])))):
            for _op, fname, cls in order:
                vals = [copy.deepcopy(_ZERO[k]) for _n, k in g.shape_of(cls)]
                case = {"kind": "cross", "flavour": fname, "cls": cls.__name__, "vals": vals}
                n_x += 1

                def one(fname=fname, cls=cls, vals=vals, case=case):
                    instr = g.build(cls, vals)
                    text = str(instr)
                    sub = _parse("# NETQASM 0.0\n# APPID 0\n" + text, fname)
                    back = deserialize(bytes(sub), flavour=_flavour(fname, "long-lived"))
                    text2 = "\n".join(str(i) for i in back.instructions)
                    if text2 != text or [type(i) for i in back.instructions] != [cls]:
                        raise Failure(f"sub:not-fixed-point:cross-flavour:{fname}:{cls.mnemonic}", case, f"{text!r} of flavour {fname} -> binary -> text gave {text2!r} ({[type(i).__module__.split('.')[-1] + '.' + type(i).__name__ for i in back.instructions]}) after other flavours decoded the same bytes")

                ctx.attempt(case, one)
        stt.exhaustive_domains["every class, all-zero operands, text->binary->text with flavours alternating in opcode order"] = n_x
        # enumerated: every class with the field-distinguishing valuations of C02
        from checks.c02 import enumerated_cases

        k = 0
        for fname in g.FLAVOURS:
            for cls, vals in enumerated_cases(fname):
                k += 1
                if ctx.attempt({"kind": "instr", "flavour": fname, "cls": cls.__name__, "vals": vals}, check_single, fname, cls.__name__, vals):
                    stt.case(str([cls.__name__, vals]) + "|" + fname, True, ["enum"])
        stt.exhaustive_domains["all classes x field-distinguishing valuations"] = k


def replay(case):
    try:
        if case["kind"] == "cross":
            return None  # order-dependent by construction: replayed by the run itself
        if case["kind"] == "reprint":
            check_reprint(case["flavour"], case["cls"], case["vals"], case["vals2"])
        elif case["kind"] == "instr":
            check_single(case["flavour"], case["cls"], case["vals"])
        else:
            check_sub({k: case[k] for k in ("flavour", "app_id", "version", "instrs")})
    except Failure as f:
        return f
    return None
