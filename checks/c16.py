"""C16 — operands the format cannot represent are rejected, never silently altered.

Each case has exactly one operand outside its encodable range.  Oracle: encoding raises, or (if it
returns) the bytes decode to an equal program.  Bytes that decode to a *different* program are the
violation.
"""
from __future__ import annotations

import copy
from typing import Any, List

from hypothesis import strategies as st

from vlib import gen_instr as g
from vlib.runner import Ctx, Failure, HarnessError

LEVEL = "exploration"
RULE = (
    "one instruction (any class of any flavour) with exactly one operand field outside its range (register index 16.., "
    "8-bit immediate <0 or >255, integer/address outside int32, app id outside uint16, version byte outside uint8), "
    "reached by direct construction, through the text assembler and through the SDK (rotation n/d, measurement basis "
    "rotations, template instantiation, app id (also on a subroutine object that was already encoded once), NV hardware angle normalisation), with the value also given as a numpy integer, and "
    "(instructions the NV transpiler copies or retargets) through NV transpilation before encoding; every shape x position x outlier list "
    "enumerated + Hypothesis-random outliers.  History dimension (route 'mutate'): a VALID one-instruction program obtained by "
    "construction / binary decoding / the text assembler / deepcopy (optionally already encoded once), whose operand is then changed "
    "by its owner to an unrepresentable one - in place (instruction field; address/index/start/stop of the mutable ArrayEntry/ArraySlice "
    "object the program already holds) or by replacing the whole entry/slice object - and encoded (again); expected program built "
    "independently from the changed values.  Every case is non-trivial; distinct by (route, class, position, value[, origin, how])"
)
ASSUMPTIONS = ["'raises an error' = any exception from bytes()/flush()/instantiate(); the SDK may also reject earlier (counted as rejected)"]
SHARDS = {"quick": 1, "thorough": 8}

OUT_REGIDX = [16, 17, 31, 63, 64, 255, 256, -1, 100, 105, 120, 150, 1000, 1500, 10000]
OUT_U8 = [-1, 256, 257, 300, 511, 65536, -128, -256]
OUT_I32 = [2**31, 2**31 + 1, -(2**31) - 1, 2**32, 2**32 + 5, -(2**32), 2**40 + 3]
OUT_APP = [65536, 65537, -1, 70000, 2**32]
OUT_VER = [256, -1, 300]
PRE = "# NETQASM 0.0\n# APPID 0\n"


def _flav(f):
    return g.FLAVOURS[f]()


def positions(shape):
    """(operand position, sub-key or None, kind-of-scalar)"""
    out = []
    for pos, (_n, k) in enumerate(shape):
        if k == "reg":
            out.append((pos, None, "regidx"))
        elif k == "u8":
            out.append((pos, None, "u8"))
        elif k == "i32":
            out.append((pos, None, "i32"))
        elif k == "addr":
            out.append((pos, "addr", "i32"))
        elif k == "entry":
            out.append((pos, "addr", "i32"))
            out.append((pos, "idx", "regidx"))
        elif k == "slice":
            out.append((pos, "addr", "i32"))
            out.append((pos, "start", "regidx"))
            out.append((pos, "stop", "regidx"))
    return out


def outliers(kind):
    return {"regidx": OUT_REGIDX, "u8": OUT_U8, "i32": OUT_I32}[kind]


_BASE = {
    "reg": "R1",
    "u8": 3,
    "i32": 5,
    "addr": {"addr": 2},
    "entry": {"addr": 2, "idx": "R3"},
    "slice": {"addr": 2, "start": "R3", "stop": "R4"},
}


def make_vals(shape, pos, sub, kind, value, base=None):
    vals = copy.deepcopy(base) if base is not None else [copy.deepcopy(_BASE[k]) for _n, k in shape]
    if kind == "regidx":
        cur = vals[pos] if sub is None else vals[pos][sub]
        new = f"{cur[0]}{value}"
        if sub is None:
            vals[pos] = new
        else:
            vals[pos][sub] = new
    else:
        if sub is None:
            vals[pos] = value
        else:
            vals[pos][sub] = value
    return vals


def _decoded_equal(sub, raw, fname) -> bool:
    from netqasm.lang.parsing import deserialize

    back = deserialize(raw, flavour=_flav(fname))
    return (
        back.instructions == sub.instructions
        and [type(i) for i in back.instructions] == [type(i) for i in sub.instructions]
        and back.app_id == sub.app_id
        and tuple(back.netqasm_version) == tuple(sub.netqasm_version)
    )


def check_direct(case) -> str:
    from netqasm.lang.subroutine import Subroutine

    fname = case["flavour"]
    cls = g.class_by_name(fname, case["cls"]) if case.get("cls") else None
    instrs = [g.build(cls, case["vals"])] if cls else []
    if case.get("np"):
        # the same value as a numpy integer (angles and indices computed with numpy reach the encoder that way)
        import numpy as np

        from netqasm.lang.operand import Immediate

        name = g.shape_of(cls)[case["pos"][0]][0]
        setattr(instrs[0], name, Immediate(getattr(np, case["np"])(case["value"])))
    try:
        if case.get("via") == "nv-transpile":
            from netqasm.sdk.transpile import NVSubroutineTranspiler

            sub = Subroutine(instructions=instrs, netqasm_version=(0, 0), app_id=0)
            sub = NVSubroutineTranspiler(sub).transpile()
            raw = bytes(sub)
            fname = "nv"
            sub = Subroutine(instructions=[g.build(cls, case["vals"])], netqasm_version=(0, 0), app_id=0)  # what was asked for
            back = None
            try:
                from netqasm.lang.parsing import deserialize

                back = deserialize(raw, flavour=_flav("nv"))
            except Exception as e:
                raise Failure(f"direct:{case['what']}:nv-transpile", case, f"transpiled and encoded without error but bytes do not decode: {type(e).__name__}: {e}")
            if sub.instructions[0] not in back.instructions:
                raise Failure(f"direct:{case['what']}:nv-transpile", case, f"silently altered: {[str(i) for i in sub.instructions]} was transpiled for NV and encoded to bytes that decode as {[str(i) for i in back.instructions]}")
            return "equal"
        if case.get("via") == "instantiate":
            sub = Subroutine(instructions=instrs, netqasm_version=tuple(case.get("version", [0, 0])), app_id=0)
            if case.get("encoded_before"):
                bytes(sub)  # the same object was already encoded once, for application 0
            sub.instantiate(case.get("app_id", 0), {})
        elif case.get("via") == "setter":
            sub = Subroutine(instructions=instrs, netqasm_version=tuple(case.get("version", [0, 0])), app_id=0)
            if case.get("encoded_before"):
                bytes(sub)
            sub.app_id = case.get("app_id", 0)
        else:
            sub = Subroutine(instructions=instrs, netqasm_version=(None if case.get("version", 0) is None else tuple(case.get("version", [0, 0]))), app_id=case.get("app_id", 0))
        raw = bytes(sub)
    except Failure:
        raise
    except Exception:
        return "raised"
    try:
        same = _decoded_equal(sub, raw, fname)
    except Exception as e:
        raise Failure(f"direct:{case['what']}", case, f"encoded without error but bytes do not decode: {type(e).__name__}: {e}")
    if not same:
        from netqasm.lang.parsing import deserialize

        back = deserialize(raw, flavour=_flav(fname))
        raise Failure(
            f"direct:{case['what']}",
            case,
            f"silently altered: {[str(i) for i in instrs]} app={sub.app_id} ver={sub.netqasm_version} encoded to bytes that decode as "
            f"{[str(i) for i in back.instructions]} app={back.app_id} ver={tuple(back.netqasm_version)}",
        )
    return "equal"


def check_text(case) -> str:
    from netqasm.lang.parsing import deserialize
    from netqasm.lang.parsing.text import parse_text_subroutine

    fname = case["flavour"]
    text = case["text"]
    try:
        sub = parse_text_subroutine(text, flavour=_flav(fname))
        raw = bytes(sub)
    except Exception:
        return "raised"
    try:
        same = _decoded_equal(sub, raw, fname)
    except Exception as e:
        raise Failure(f"text:{case['what']}", case, f"assembled without error but bytes do not decode: {type(e).__name__}: {e}")
    if same and case.get("cls") and "value" in case:
        # the bytes agree with what the assembler built, but does that still contain the operand the source text has?
        import re as _re

        back = deserialize(raw, flavour=_flav(fname))
        toks = {t for i in back.instructions for t in _re.split(r"[\s\[\]:@,()]+", str(i)) if t}
        v = case["value"]
        want_tok = {str(v)} | {f"{b}{v}" for b in "RCQM"}
        if not (toks & want_tok):
            raise Failure(f"text:{case['what']}", case, f"silently altered: source {text!r} (operand {v} does not fit) assembled and encoded to bytes that decode as {[str(i) for i in back.instructions]}")
    if not same:
        back = deserialize(raw, flavour=_flav(fname))
        raise Failure(
            f"text:{case['what']}",
            case,
            f"silently altered: source {text!r} assembled to {[str(i) for i in sub.instructions]} but its bytes decode as "
            f"{[str(i) for i in back.instructions]} app={back.app_id}",
        )
    return "equal"


def _debug_conn(**kw):
    from netqasm.sdk.connection import BaseNetQASMConnection, DebugConnection
    from netqasm.sdk.shared_memory import SharedMemoryManager

    SharedMemoryManager.reset_memories()
    BaseNetQASMConnection._app_ids.clear()
    BaseNetQASMConnection._app_names.clear()
    DebugConnection.node_ids = {"alice": 0, "bob": 1}
    return DebugConnection("alice", **kw)


def check_sdk(case) -> str:
    """SDK routes; the intended program is what the SDK call asked for."""
    from netqasm.backend.messages import deserialize_host_msg
    from netqasm.lang.operand import Template
    from netqasm.lang.parsing import deserialize
    from netqasm.runtime.settings import set_is_using_hardware
    from netqasm.sdk.qubit import Qubit

    what = case["what"]
    v = case["value"]
    if case.get("np"):
        import numpy as np

        v = getattr(np, case["np"])(v)
    fname = "vanilla"
    set_is_using_hardware(False)
    try:
        try:
            if what == "app_id":
                conn = _debug_conn(app_id=v)
                q = Qubit(conn)
                q.H()
                conn.flush()
                intended = {"app_id": v}
            elif what == "app_id_instantiate":
                conn = _debug_conn()
                q = Qubit(conn)
                q.rot_Z(n=Template("t"), d=2)
                sub = conn.compile()
                sub.instantiate(v, {"t": 3})
                conn.commit_subroutine(sub)
                intended = {"app_id": v}
            elif what in ("rot_n", "rot_d"):
                conn = _debug_conn()
                q = Qubit(conn)
                n, d = (v, 1) if what == "rot_n" else (1, v)
                getattr(q, "rot_" + case["axis"])(n=n, d=d)
                conn.flush()
                intended = {"rot": ("rot_" + case["axis"].lower(), n, d)}
            elif what == "meas_rot":
                conn = _debug_conn()
                q = Qubit(conn)
                rots = [1, 2, 3]
                rots[case["pos"]] = v
                q.measure(basis_rotations=tuple(rots))
                conn.flush()
                intended = {"meas_basis": tuple(rots) + (4,)}
            elif what == "template":
                conn = _debug_conn()
                q = Qubit(conn)
                q.rot_Z(n=Template("t"), d=2)
                sub = conn.compile()
                sub.instantiate(conn.app_id, {"t": v})
                conn.commit_subroutine(sub)
                intended = {"rot": ("rot_z", v, 2)}
            elif what == "nv_hw_norm":
                from netqasm.sdk.build_types import NVHardwareConfig
                from netqasm.sdk.transpile import NVSubroutineTranspiler

                set_is_using_hardware(True)
                conn = _debug_conn(hardware_config=NVHardwareConfig(2), compiler=NVSubroutineTranspiler)
                q = Qubit(conn)
                q.rot_X(n=v, d=case["d"])
                conn.flush()
                fname = "nv"
                intended = {"nv_rot_angle": (v, case["d"])}
            else:
                raise HarnessError(what)
        except HarnessError:
            raise
        except Exception:
            return "raised"
        subs = []
        for raw in conn.storage:
            m = deserialize_host_msg(raw)
            if type(m).__name__ == "SubroutineMessage":
                subs.append(deserialize(m.subroutine, flavour=_flav(fname)))
        if not subs:
            raise Failure(f"sdk:{what}", case, "no subroutine was sent and no error raised")
        s = subs[-1]
        instrs = s.instructions
        if "app_id" in intended and s.app_id != intended["app_id"]:
            raise Failure(f"sdk:{what}", case, f"app id {intended['app_id']} silently became {s.app_id}")
        if "rot" in intended:
            mn, n, d = intended["rot"]
            got = [(i.mnemonic, i.angle_num.value, i.angle_denom.value) for i in instrs if i.mnemonic.startswith("rot_")]
            if got != [(mn, n, d)]:
                raise Failure(f"sdk:{what}", case, f"requested {mn} n={n} d={d}; the bytes sent decode as {got}")
        if "meas_basis" in intended:
            got = [tuple(o.value for o in i.operands[2:]) for i in instrs if i.mnemonic == "meas_basis"]
            if got != [intended["meas_basis"]]:
                raise Failure(f"sdk:{what}", case, f"requested meas_basis {intended['meas_basis']}; the bytes sent decode as {got}")
        if "nv_rot_angle" in intended:
            import math

            n, d = intended["nv_rot_angle"]
            want = (n * math.pi / 2**d) % (2 * math.pi)
            got = [(i.angle_num.value * math.pi / 2**i.angle_denom.value) % (2 * math.pi) for i in instrs if i.mnemonic == "rot_x"]
            if len(got) != 1 or min(abs(got[0] - want), 2 * math.pi - abs(got[0] - want)) > 1e-9:
                raise Failure(f"sdk:{what}", case, f"requested rot_x {n}*pi/2^{d} on NV hardware; bytes sent rotate by {got} (want {want})")
        return "equal"
    finally:
        set_is_using_hardware(False)


MUT_ORIGINS = ["built", "built-encoded", "deepcopy", "decoded", "decoded-encoded", "text", "text-encoded"]
_SUBFIELD = {"addr": "address", "idx": "index", "start": "start", "stop": "stop"}
MUT_REGIDX = [16, 1000]
MUT_U8 = [256, -1, 65536]
MUT_I32 = [2**31, -(2**31) - 1, 2**40 + 3]


def _obtain(origin, fname, cls, base):
    """A valid one-instruction program as its owner got hold of it.  None: this origin does not exist for the class
    (no text form)."""
    from netqasm.lang.parsing import deserialize
    from netqasm.lang.parsing.text import parse_text_subroutine
    from netqasm.lang.subroutine import Subroutine

    kind, _, again = origin.partition("-")
    valid = g.build(cls, base)
    sub = Subroutine(instructions=[valid], netqasm_version=(0, 0), app_id=0)
    if kind == "deepcopy":
        sub = copy.deepcopy(sub)
    elif kind == "decoded":
        sub = deserialize(bytes(sub), flavour=_flav(fname))
    elif kind == "text":
        try:
            sub = parse_text_subroutine(PRE + str(valid), flavour=_flav(fname))
        except Exception:
            return None
    if len(sub.instructions) != 1 or type(sub.instructions[0]) is not cls or sub.instructions[0] != valid:
        return None  # (what the assembler / decoder makes of valid programs is C01 / C17's business)
    if again:
        bytes(sub)  # encoded once while it was still valid
    return sub


def check_mutate(case) -> str:
    """The unrepresentable operand is put into a program that already exists (and that may have been encoded or
    decoded before).  Oracle: the program now *contains* the operand, so encoding raises, or the bytes decode to the
    program with the changed operand (built here from the case's values, without looking at the mutated objects)."""
    from netqasm.lang.parsing import deserialize
    from netqasm.lang.subroutine import Subroutine

    fname = case["flavour"]
    cls = g.class_by_name(fname, case["cls"])
    shape = g.shape_of(cls)
    pos, subkey = case["pos"]
    name, okind = shape[pos]
    sig = f"mutate:{case['what']}:{case['origin']}:{case['how']}"
    sub = _obtain(case["origin"], fname, cls, case["base"])
    if sub is None:
        return "origin-unavailable"
    before = bytes(sub) if case["origin"].endswith("-encoded") else None
    instr = sub.instructions[0]
    new_operand = g.operand_from_json(okind, case["vals"][pos])
    if case["how"] == "in-place" and subkey is not None and okind in ("entry", "slice"):
        holder = getattr(instr, name)  # the mutable ArrayEntry / ArraySlice the program already holds
        setattr(holder, _SUBFIELD[subkey], getattr(new_operand, _SUBFIELD[subkey]))
    else:
        setattr(instr, name, new_operand)
    want = Subroutine(instructions=[g.build(cls, case["vals"])], netqasm_version=(0, 0), app_id=0)
    if [str(i) for i in sub.instructions] != [str(i) for i in want.instructions]:
        raise HarnessError(f"mutation did not produce the intended program: {[str(i) for i in sub.instructions]} vs {[str(i) for i in want.instructions]}")
    try:
        raw = bytes(sub)
    except Exception:
        return "raised"
    try:
        same = _decoded_equal(want, raw, fname)
    except Exception as e:
        raise Failure(sig, case, f"encoded without error but bytes do not decode: {type(e).__name__}: {e}")
    if not same:
        back = deserialize(raw, flavour=_flav(fname))
        raise Failure(
            sig,
            case,
            f"silently altered: a valid program ({case['origin']}) was changed by its owner ({case['how']}) to {[str(i) for i in want.instructions]}; "
            f"encoding it raised nothing and gave bytes that decode as {[str(i) for i in back.instructions]}"
            + (" (the bytes of the program before the change)" if before is not None and raw == before else ""),
        )
    return "equal"


def check(case) -> str:
    r = case["route"]
    if r == "direct":
        return check_direct(case)
    if r == "text":
        return check_text(case)
    if r == "sdk":
        return check_sdk(case)
    if r == "mutate":
        return check_mutate(case)
    raise HarnessError(r)


def _text_of(cls, vals) -> str:
    return str(g.build(cls, vals))


def _shared_classes():
    return set(g.flavour_classes("vanilla")) & set(g.flavour_classes("nv"))


def _hows(okind):
    return ["in-place", "replace"] if okind in ("entry", "slice") else ["in-place"]


def enumerated_mutations() -> List[Any]:
    """every class x operand position x {just outside, far outside} x origin of the program x way of changing it"""
    mut_out = {"regidx": MUT_REGIDX, "u8": MUT_U8, "i32": MUT_I32}
    cases = []
    for fname in g.FLAVOURS:
        for cls in g.flavour_classes(fname):
            shape = g.shape_of(cls)
            base = [copy.deepcopy(_BASE[k]) for _n, k in shape]
            origins = [o for o in MUT_ORIGINS if _origin_exists(o, fname, cls, base)]
            for pos, sub, kind in positions(shape):
                for v in mut_out[kind]:
                    vals = make_vals(shape, pos, sub, kind, v)
                    for origin in origins:
                        for how in _hows(shape[pos][1]):
                            cases.append({"route": "mutate", "what": kind, "origin": origin, "how": how, "flavour": fname, "cls": cls.__name__, "base": base, "vals": vals, "pos": [pos, sub], "value": v})
    return cases


def _origin_exists(origin, fname, cls, base) -> bool:
    try:
        return _obtain(origin, fname, cls, base) is not None
    except Exception:
        return False


def enumerated() -> List[Any]:
    cases = []
    for fname in g.FLAVOURS:
        for cls in g.flavour_classes(fname):
            shape = g.shape_of(cls)
            for pos, sub, kind in positions(shape):
                for v in outliers(kind):
                    vals = make_vals(shape, pos, sub, kind, v)
                    what = f"{kind}"
                    cases.append({"route": "direct", "what": what, "flavour": fname, "cls": cls.__name__, "vals": vals, "pos": [pos, sub], "value": v})
                    if kind in ("u8", "i32") and sub is None:
                        cases.append({"route": "direct", "what": what, "np": "int64", "flavour": fname, "cls": cls.__name__, "vals": vals, "pos": [pos, sub], "value": v})
                    if fname == "vanilla" and cls in _shared_classes():
                        # instructions the NV transpiler copies (or, for branches, retargets): compile for NV, then encode
                        cases.append({"route": "direct", "what": what, "via": "nv-transpile", "flavour": fname, "cls": cls.__name__, "vals": vals, "pos": [pos, sub], "value": v})
                    try:
                        text = _text_of(cls, vals)
                    except Exception:
                        continue
                    cases.append({"route": "text", "what": what, "flavour": fname, "cls": cls.__name__, "text": PRE + text, "pos": [pos, sub], "value": v})
    cases.extend(enumerated_mutations())
    for v in OUT_APP:
        cases.append({"route": "direct", "what": "app_id", "flavour": "vanilla", "cls": None, "vals": [], "app_id": v, "value": v})
        cases.append({"route": "direct", "what": "app_id", "via": "instantiate", "flavour": "vanilla", "cls": None, "vals": [], "app_id": v, "value": v})
        cases.append({"route": "direct", "what": "app_id", "via": "setter", "flavour": "vanilla", "cls": None, "vals": [], "app_id": v, "value": v})
        cases.append({"route": "sdk", "what": "app_id_instantiate", "value": v})
        for via in ("instantiate", "setter"):
            cases.append({"route": "direct", "what": "app_id", "via": via, "encoded_before": True, "flavour": "vanilla", "cls": None, "vals": [], "app_id": v, "value": v})
        cases.append({"route": "text", "what": "app_id", "flavour": "vanilla", "text": f"# NETQASM 0.0\n# APPID {v}\nset R0 1", "value": v})
        # the version line is optional in the text format
        cases.append({"route": "text", "what": "app_id", "flavour": "vanilla", "text": f"# APPID {v}\nset R0 1", "value": v})
        cases.append({"route": "text", "what": "app_id", "flavour": "vanilla", "text": f"# APPID {v}\n# NETQASM 1.0\nset R0 1", "value": v})
        cases.append({"route": "direct", "what": "app_id", "flavour": "vanilla", "cls": None, "vals": [], "app_id": v, "value": v, "version": None})
        cases.append({"route": "sdk", "what": "app_id", "value": v})
    for v in OUT_VER:
        for p in (0, 1):
            ver = [0, 0]
            ver[p] = v
            cases.append({"route": "direct", "what": "version", "flavour": "vanilla", "cls": None, "vals": [], "version": ver, "value": v})
    # literals that the assembler moves into a `set` (i32 route through _replace_constants)
    for v in OUT_I32:
        cases.append({"route": "text", "what": "i32-literal", "flavour": "vanilla", "text": PRE + f"store {v} @0[1]", "value": v})
        cases.append({"route": "text", "what": "i32-literal", "flavour": "vanilla", "text": PRE + f"array {v} @1", "value": v})
        cases.append({"route": "text", "what": "i32-literal", "flavour": "vanilla", "text": PRE + f"load R0 @0[{v}]", "value": v})
    for v in OUT_U8:
        for axis in "XYZ":
            cases.append({"route": "sdk", "what": "rot_n", "axis": axis, "value": v})
            cases.append({"route": "sdk", "what": "rot_d", "axis": axis, "value": v})
        for p in range(3):
            cases.append({"route": "sdk", "what": "meas_rot", "pos": p, "value": v})
        cases.append({"route": "sdk", "what": "template", "value": v})
        for npt in ("int64", "int32"):
            for axis in "XYZ":
                cases.append({"route": "sdk", "what": "rot_n", "axis": axis, "value": v, "np": npt})
                cases.append({"route": "sdk", "what": "rot_d", "axis": axis, "value": v, "np": npt})
            cases.append({"route": "sdk", "what": "template", "value": v, "np": npt})
            cases.append({"route": "sdk", "what": "meas_rot", "pos": 1, "value": v, "np": npt})
    for d in range(0, 4):
        for n in [16, 17, 31, 32, 64, 100, 128, 255]:
            if n * 2 ** (4 - d) > 255:
                cases.append({"route": "sdk", "what": "nv_hw_norm", "value": n, "d": d})
    return cases


def st_random():
    def for_flavour(fname):
        classes = [c for c in g.flavour_classes(fname) if positions(g.shape_of(c))]

        def for_cls(cls):
            shape = g.shape_of(cls)
            poss = positions(shape)
            base = st.tuples(*[g.st_operand(k) for _n, k in shape]).map(list)

            def mk(t):
                basevals, (pos, sub, kind), v, route = t
                vals = make_vals(shape, pos, sub, kind, v, base=basevals)
                c = {"route": "direct" if route in ("numpy", "nv-transpile") else route, "what": kind, "flavour": fname, "cls": cls.__name__, "vals": vals, "pos": [pos, sub], "value": v}
                if route == "text":
                    c["text"] = PRE + _text_of(cls, vals)
                if route == "numpy" and kind in ("u8", "i32") and sub is None:
                    c["np"] = "int64"
                if route == "nv-transpile" and fname == "vanilla" and cls in _shared_classes():
                    c["via"] = "nv-transpile"
                return c

            def outl(p):
                kind = p[2]
                if kind == "regidx":
                    return st.integers(16, 300) | st.sampled_from(OUT_REGIDX)
                if kind == "u8":
                    return st.integers(256, 2**20) | st.integers(-(2**20), -1) | st.sampled_from(OUT_U8)
                return st.integers(2**31, 2**40) | st.integers(-(2**40), -(2**31) - 1) | st.sampled_from(OUT_I32)

            return st.sampled_from(poss).flatmap(lambda p: st.tuples(base, st.just(p), outl(p), st.sampled_from(["direct", "text", "numpy", "nv-transpile"]))).map(mk)

        return st.one_of([for_cls(c) for c in classes])

    return st.one_of([for_flavour(f) for f in g.FLAVOURS])


def st_random_mutation():
    """valid random operands everywhere, then one of them changed to a random outlier on a random (origin, how)"""

    def for_flavour(fname):
        classes = [c for c in g.flavour_classes(fname) if positions(g.shape_of(c))]

        def for_cls(cls):
            shape = g.shape_of(cls)
            poss = positions(shape)
            base = st.tuples(*[g.st_operand(k) for _n, k in shape]).map(list)

            def mk(t):
                basevals, (pos, sub, kind), v, origin, how = t
                vals = make_vals(shape, pos, sub, kind, v, base=basevals)
                return {"route": "mutate", "what": kind, "origin": origin, "how": how, "flavour": fname, "cls": cls.__name__, "base": basevals, "vals": vals, "pos": [pos, sub], "value": v}

            def outl(kind):
                if kind == "regidx":
                    return st.integers(16, 300) | st.sampled_from(OUT_REGIDX)
                if kind == "u8":
                    return st.integers(256, 2**20) | st.integers(-(2**20), -1) | st.sampled_from(OUT_U8)
                return st.integers(2**31, 2**40) | st.integers(-(2**40), -(2**31) - 1) | st.sampled_from(OUT_I32)

            return st.sampled_from(poss).flatmap(
                lambda p: st.tuples(base, st.just(p), outl(p[2]), st.sampled_from(MUT_ORIGINS), st.sampled_from(_hows(shape[p[0]][1])))
            ).map(mk)

        return st.one_of([for_cls(c) for c in classes])

    return st.one_of([for_flavour(f) for f in g.FLAVOURS])


def shard(ctx: Ctx) -> None:
    stt = ctx.stats

    def run(case):
        res = check(case)
        key = {k: case[k] for k in case if k != "vals"} if case["route"] not in ("direct", "mutate") else case
        labels = [f"route:{case['route']}" + (":numpy-integer" if case.get("np") else "") + (":" + case["via"] if case.get("via") else ""), f"what:{case['what']}", f"result:{res}"]
        if case["route"] == "mutate":
            labels += [f"mutate:origin:{case['origin']}", f"mutate:how:{case['how']}" + (":field-of-held-entry/slice" if case["how"] == "in-place" and case["pos"][1] is not None and g.shape_of(g.class_by_name(case["flavour"], case["cls"]))[case["pos"][0]][1] in ("entry", "slice") else "")]
        # a mutation whose origin does not exist for the class (no text form) exercises nothing
        stt.case(key, res != "origin-unavailable", labels,
                 sample={k: case[k] for k in ("route", "what", "value", "text", "cls", "vals", "origin", "how") if k in case})
        if res == "raised":
            stt.rejected[case["what"]] += 1

    if ctx.shard == 0:
        en = enumerated()
        for case in en:
            ctx.attempt(case, run, case)
        stt.exhaustive_domains["every class x operand position x outlier list, on direct/text routes; SDK routes; every class x position x {just, far outside} x program origin x way of changing (mutate route)"] = len(en)
    n = 1500 if ctx.tier == "quick" else 10000
    ctx.search(st_random(), run, n, name="c16-random")
    ctx.search(st_random_mutation(), run, 600 if ctx.tier == "quick" else 4000, name="c16-random-mutation", salt=1)


def replay(case):
    try:
        check(case)
    except Failure as f:
        return f
    return None
