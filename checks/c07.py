"""C07 — NV gate decompositions equal the vanilla gates they replace.

The unitary of the emitted NV sequence is computed with independent operator semantics
(vlib.quantum) and compared, up to one global phase, on the full matrix.
"""
from __future__ import annotations

import itertools
from typing import Any, Dict, List

import numpy as np
from hypothesis import strategies as st

from vlib import quantum as qm
from vlib.runner import Ctx, Failure, HarnessError

LEVEL = "exploration"
RULE = (
    "enumerated: 7 named gates x placements {electron, carbon}; CNOT/CPHASE for every ordered pair of distinct virtual ids "
    "from {0,1,2,3}; MOV 0->k and k->0; rotations 3 axes x n 0..255 x d (quick: d<=5 complete + Hypothesis-drawn (n,d); "
    "thorough: all 256x256) in simulation mode and d 0..4 in hardware mode; published to_matrix()/to_matrix_target_only() of "
    "every vanilla and NV instruction class; Hypothesis-drawn straight-line sequences of 2..6 gates over 2..4 qubits and six Q "
    "registers (whole-circuit unitary), a third of them with gate objects that are instances of subclasses of the vanilla classes; "
    "the enumerated gates x placements again with the gate object an instance of a plain / annotated-dataclass / grandchild subclass; "
    "a second transpilation of an equal input after the caller edited the first result in place; Hypothesis-drawn histories of "
    "published-matrix queries where the caller edits each returned array in place (8 kinds of edit) and asks again (same object, "
    "equal object, all other classes).  Every case is non-trivial; distinct by (gate, placement, n, d, mode) / sequence / history"
)
ASSUMPTIONS = [
    "R_a(t)=exp(-i t sigma_a/2); crot_a(t)=|0><0|(x)R_a(t)+|1><1|(x)R_a(-t), first operand control, axis from the mnemonic",
    "virtual id 0 is the electron, other ids are carbons; equality up to one global phase, tolerance 1e-9",
    "NV controlled rotations have the electron as control and a carbon as target (the only form the transpiler's circuits and the NV gate documentation use)",
    "mov semantics: state transfer onto a target initialised in |0> (source left in a fixed state)",
]
SHARDS = {"quick": 1, "thorough": 16}
TOL = 1e-9


def transpile(instrs, debug=False):
    from netqasm.lang.subroutine import Subroutine
    from netqasm.sdk.transpile import NVSubroutineTranspiler

    sub = Subroutine(instructions=list(instrs), app_id=0)
    out = NVSubroutineTranspiler(sub, debug=debug).transpile().instructions
    _LAST_OUT[:] = [out]
    return out


_LAST_OUT: List[Any] = []

# ------------------------------------------------------------------ instances of subclasses of the vanilla gate classes

SUBCLASS_VARIANTS = ("plain", "annotated", "grandchild")
_SUBCLASSES: Dict[Any, type] = {}


def _gate_cls(cls, variant):
    """The class the gate object is built from: the vanilla class itself, or (variant) a subclass of it, as a front-end
    built on netqasm would derive one: 'plain' adds nothing, 'annotated' is a dataclass with one more (defaulted) field,
    'grandchild' derives from the annotated one.  An instance of any of them *is* a vanilla gate (isinstance)."""
    if not variant:
        return cls
    if variant not in SUBCLASS_VARIANTS:
        raise HarnessError(f"unknown subclass variant {variant}")
    key = (cls, variant)
    if key not in _SUBCLASSES:
        import dataclasses

        if variant == "plain":
            sub = type("Derived" + cls.__name__, (cls,), {"__module__": __name__})
        elif variant == "annotated":
            sub = dataclasses.make_dataclass("Annotated" + cls.__name__, [("note", str, dataclasses.field(default="app.py:12"))], bases=(cls,))
        else:
            sub = type("Grandchild" + cls.__name__, (_gate_cls(cls, "annotated"),), {"__module__": __name__})
        _SUBCLASSES[key] = sub
    return _SUBCLASSES[key]


def sequence_unitary(instrs, nq: int, init_regs=None) -> np.ndarray:
    """Unitary of a straight-line NV instruction sequence over virtual qubits 0..nq-1."""
    from netqasm.lang.instr.flavour import NVFlavour
    from netqasm.lang.operand import Register

    nvf = NVFlavour()
    regs: Dict[Any, int] = dict(init_regs or {})
    U = np.eye(2**nq, dtype=complex)
    for ins in instrs:
        mn = ins.mnemonic
        if type(ins).__name__ == "DebugInstruction":
            continue
        if nvf.id_map.get(ins.id) is not type(ins):
            raise Failure("not-nv", {"instr": str(ins)}, f"emitted instruction {ins} ({type(ins).__module__}) is not an NV-flavour instruction")
        if mn == "set":
            regs[ins.reg] = ins.imm.value
            continue
        if mn in ("rot_x", "rot_y", "rot_z"):
            q = regs[ins.reg]
            G = qm.rot(mn[-1], qm.angle(ins.angle_num.value, ins.angle_denom.value))
            U = qm.embed(G, [q], nq) @ U
        elif mn in ("crot_x", "crot_y"):
            q0, q1 = regs[ins.reg0], regs[ins.reg1]
            if q0 != 0 or q1 == 0:
                raise Failure("crot-control-not-electron", {"instr": str(ins), "control": q0, "target": q1}, f"emitted {ins} is controlled by virtual qubit {q0} with target {q1}: NV controlled rotations are electron-controlled (electron = virtual id 0) with a carbon target")
            G = qm.crot(mn[-1], qm.angle(ins.angle_num.value, ins.angle_denom.value))
            U = qm.embed(G, [q0, q1], nq) @ U
        else:
            raise HarnessError(f"unexpected instruction in gate expansion: {ins}")
    return U


def _set(reg, v):
    from netqasm.lang.instr import core
    from netqasm.lang.operand import Immediate

    return core.SetInstruction(reg=reg, imm=Immediate(v))


def _Q(i):
    from netqasm.lang.encoding import RegisterName
    from netqasm.lang.operand import Register

    return Register(RegisterName.Q, i)


def check_case(case) -> None:
    try:
        _check_case_once(case)
    except Failure as f:
        if case.get("subclass"):
            raise Failure(f.signature + ":subclass-instance", case, f"(gate object is an instance of a '{case['subclass']}' subclass of the vanilla class) " + f.message)
        raise
    if case.get("repeat"):
        # the caller edits what it was handed (the emitted list and the emitted instruction objects), then transpiles an
        # equal, freshly built input again: the second answer must be the first one
        edited = _vandalise_output()
        try:
            _check_case_once(case)
        except Failure as f:
            raise Failure(f.signature + ":repeat-after-output-edit", case, f"(second transpilation of an equal input, after the caller edited the {edited} instruction objects of the first result in place) " + f.message)


def _vandalise_output() -> int:
    from netqasm.lang.operand import Immediate, Register

    k = 0
    for out in _LAST_OUT:
        for ins in list(out):
            for name, v in list(vars(ins).items()):
                if isinstance(v, Immediate):
                    setattr(ins, name, Immediate(77))
                elif isinstance(v, Register):
                    setattr(ins, name, _Q(9))
            k += 1
        del out[:]
    return k


def _check_case_once(case) -> None:
    try:
        _check_case(case)
    except Failure as f:
        if f.case is not case and isinstance(f.case, dict) and "gate" not in f.case:
            raise Failure(f.signature, case, f.message)
        raise


def _check_case(case) -> None:
    from netqasm.lang.instr import vanilla
    from netqasm.lang.operand import Immediate
    from netqasm.runtime.settings import set_is_using_hardware

    g = case["gate"]
    mode = case.get("mode", "sim")
    sub = case.get("subclass")
    set_is_using_hardware(mode == "hw")
    try:
        if g in qm.NAMED:
            cls = {"x": vanilla.GateXInstruction, "y": vanilla.GateYInstruction, "z": vanilla.GateZInstruction, "h": vanilla.GateHInstruction,
                   "k": vanilla.GateKInstruction, "s": vanilla.GateSInstruction, "t": vanilla.GateTInstruction}[g]
            cls = _gate_cls(cls, sub)
            q = case["id"]
            out = transpile([_set(_Q(0), q), cls(reg=_Q(0))])
            U = sequence_unitary(out, 2)
            want = qm.embed(qm.NAMED[g], [q], 2)
        elif g in ("rot_x", "rot_y", "rot_z"):
            cls = _gate_cls({"rot_x": vanilla.RotXInstruction, "rot_y": vanilla.RotYInstruction, "rot_z": vanilla.RotZInstruction}[g], sub)
            q = case["id"]
            out = transpile([_set(_Q(0), q), cls(reg=_Q(0), imm0=Immediate(case["n"]), imm1=Immediate(case["d"]))])
            for ins in out:
                for o in ins.operands:
                    if isinstance(o, Immediate) and ins.mnemonic != "set" and not (0 <= o.value <= 255):
                        raise Failure(f"{g}:{mode}:not-encodable", case, f"emitted {ins} has an operand outside 0..255")
            U = sequence_unitary(out, 2)
            want = qm.embed(qm.rot(g[-1], qm.angle(case["n"], case["d"])), [q], 2)
        elif g in ("cnot", "cphase"):
            cls = _gate_cls({"cnot": vanilla.CnotInstruction, "cphase": vanilla.CphaseInstruction}[g], sub)
            a, b = case["ids"]
            out = transpile([_set(_Q(0), a), _set(_Q(1), b), cls(reg0=_Q(0), reg1=_Q(1))], debug=bool(case.get("debug")))
            U = sequence_unitary(out, 4)
            want = qm.embed(qm.CNOT if g == "cnot" else qm.CZ, [a, b], 4)
        elif g == "mov":
            a, b = case["ids"]
            out = transpile([_set(_Q(0), a), _set(_Q(1), b), _gate_cls(vanilla.MovInstruction, sub)(reg0=_Q(0), reg1=_Q(1))])
            U = sequence_unitary(out, 4)
            _check_mov(U, a, b, 4, case)
            return
        else:
            raise HarnessError(g)
    finally:
        set_is_using_hardware(False)
    if not qm.equal_up_to_phase(U, want, TOL):
        raise Failure(
            f"{g}:{mode}" if g not in ("cnot", "cphase") else f"{g}:{_placement(case['ids'])}",
            case,
            f"NV expansion of {case} = {[str(i) for i in out]} differs from the vanilla gate (distance {qm.phase_distance(U, want):.3g})",
        )


def _placement(ids):
    a, b = ids
    return "electron-carbon" if a == 0 else ("carbon-electron" if b == 0 else "carbon-carbon")


def _check_mov(U, src, tgt, nq, case):
    """U restricted to target=|0> must map |phi>_src -> |chi>_src (x) |phi>_tgt, identity elsewhere."""
    others = [q for q in range(nq) if q not in (src, tgt)]
    # reorder to (src, tgt, others...)
    perm = [src, tgt] + others
    P = np.zeros((2**nq, 2**nq))
    for i in range(2**nq):
        bits = [(i >> (nq - 1 - q)) & 1 for q in range(nq)]
        nb = [bits[p] for p in perm]
        j = 0
        for b in nb:
            j = (j << 1) | b
        P[j, i] = 1
    V = P @ U @ P.T  # now qubit order (src, tgt, others)
    t = V.reshape([2] * (2 * nq))
    no = len(others)
    # input tgt fixed to 0
    idx_in_t = nq + 1
    t0 = np.take(t, 0, axis=idx_in_t)  # axes: out(src,tgt,o..), in(src,o..)
    # expected: out_tgt == in_src ; out_src = chi ; others identity
    chi = None
    for phi in (0, 1):
        for ob in itertools.product((0, 1), repeat=no):
            col = t0[(slice(None), slice(None)) + tuple(slice(None) for _ in range(no)) + (phi,) + ob]
            # col axes: out(src,tgt,others)
            for out_t in (0, 1):
                for oo in itertools.product((0, 1), repeat=no):
                    v = col[(slice(None), out_t) + oo]
                    if out_t != phi or oo != ob:
                        if np.max(np.abs(v)) > TOL:
                            raise Failure(f"mov:{'0->k' if src == 0 else 'k->0'}", case, "mov expansion does not transfer the state onto the |0> target")
                    else:
                        if chi is None:
                            chi = v
                        elif np.max(np.abs(v - chi)) > TOL:
                            raise Failure(f"mov:{'0->k' if src == 0 else 'k->0'}", case, "mov expansion leaves the source state dependent on the moved state")
    if chi is None or abs(np.linalg.norm(chi) - 1) > TOL:
        raise Failure(f"mov:{'0->k' if src == 0 else 'k->0'}", case, "mov expansion is not an isometry onto chi (x) phi")


# ------------------------------------------------------------------ published matrices


def matrix_cases() -> List[Dict[str, Any]]:
    from netqasm.lang.instr import core, nv, vanilla

    out = []
    for modname, mod in (("vanilla", vanilla), ("nv", nv)):
        for name in dir(mod):
            c = getattr(mod, name)
            if not (isinstance(c, type) and c.__module__ == mod.__name__ and hasattr(c, "to_matrix")):
                continue
            if issubclass(c, (core.RotationInstruction, core.ControlledRotationInstruction)):
                for n, d in [(0, 0), (1, 0), (1, 1), (1, 2), (3, 2), (8, 4), (24, 4), (16, 4), (5, 3), (255, 7), (255, 255), (7, 0), (31, 4), (28, 4)]:
                    out.append({"gate": "matrix", "module": modname, "cls": name, "n": n, "d": d})
                for n, d in [(1, 1), (3, 2), (24, 4), (7, 0)]:
                    # the angle given through the public setters of an instruction built with another angle
                    out.append({"gate": "matrix", "module": modname, "cls": name, "n": n, "d": d, "via": "setters"})
                    # the library logging at DEBUG while the matrix is computed
                    out.append({"gate": "matrix", "module": modname, "cls": name, "n": n, "d": d, "log_level": "DEBUG"})
            else:
                out.append({"gate": "matrix", "module": modname, "cls": name})
    return out


def check_matrix(case) -> None:
    from vlib.loglevel import log_level

    with log_level(case.get("log_level")):
        _check_matrix(case)


def _check_matrix(case) -> None:
    from netqasm.lang.instr import core, nv, vanilla
    from netqasm.lang.operand import Immediate

    mod = {"vanilla": vanilla, "nv": nv}[case["module"]]
    cls = getattr(mod, case["cls"])
    mn = cls.mnemonic
    sig = f"matrix:{case['module']}:{mn}"
    if case.get("via") == "setters" and issubclass(cls, (core.RotationInstruction, core.ControlledRotationInstruction)):
        if issubclass(cls, core.RotationInstruction):
            ins = cls(reg=_Q(0), imm0=Immediate(5), imm1=Immediate(3))
        else:
            ins = cls(reg0=_Q(0), reg1=_Q(1), imm0=Immediate(5), imm1=Immediate(3))
        ins.to_matrix()
        ins.angle_num = Immediate(case["n"])
        ins.angle_denom = Immediate(case["d"])
        a_ = qm.angle(case["n"], case["d"])
        want = qm.rot(mn[-1], a_) if issubclass(cls, core.RotationInstruction) else qm.crot(mn[-1], a_)
        tgt = None if issubclass(cls, core.RotationInstruction) else qm.rot(mn[-1], a_)
    elif issubclass(cls, core.RotationInstruction):
        ins = cls(reg=_Q(0), imm0=Immediate(case["n"]), imm1=Immediate(case["d"]))
        want = qm.rot(mn[-1], qm.angle(case["n"], case["d"]))
        tgt = None
    elif issubclass(cls, core.ControlledRotationInstruction):
        ins = cls(reg0=_Q(0), reg1=_Q(1), imm0=Immediate(case["n"]), imm1=Immediate(case["d"]))
        want = qm.crot(mn[-1], qm.angle(case["n"], case["d"]))
        tgt = qm.rot(mn[-1], qm.angle(case["n"], case["d"]))
    elif issubclass(cls, core.TwoQubitInstruction):
        ins = cls(reg0=_Q(0), reg1=_Q(1))
        if mn == "mov":
            M = np.asarray(ins.to_matrix(), dtype=complex)
            _check_mov(M, 0, 1, 2, case)
            return
        want = {"cnot": qm.CNOT, "cphase": qm.CZ}[mn]
        tgt = {"cnot": qm.X, "cphase": qm.Z}[mn]
    else:
        ins = cls(reg=_Q(0))
        if mn not in qm.NAMED:
            raise HarnessError(f"no reference operator for mnemonic {mn}")
        want = qm.NAMED[mn]
        tgt = None
    M = np.asarray(ins.to_matrix(), dtype=complex)
    if not qm.equal_up_to_phase(M, want, TOL):
        raise Failure(sig, case, f"{cls.__name__}.to_matrix() for {ins} is not the operator of '{mn}' (distance {qm.phase_distance(M, want):.3g})")
    if tgt is not None and hasattr(ins, "to_matrix_target_only"):
        Mt = np.asarray(ins.to_matrix_target_only(), dtype=complex)
        if not qm.equal_up_to_phase(Mt, tgt, TOL):
            raise Failure(sig + ":target_only", case, f"{cls.__name__}.to_matrix_target_only() for {ins} is not the target operator of '{mn}'")


# ------------------------------------------------------------------ enumeration (and the cases derived from it)


def fixed_cases() -> List[Dict[str, Any]]:
    cases = []
    for g in qm.NAMED:
        for q in (0, 1):
            for mode in ("sim", "hw"):
                cases.append({"gate": g, "id": q, "mode": mode})
    for g in ("cnot", "cphase"):
        for a, b in itertools.permutations(range(4), 2):
            cases.append({"gate": g, "ids": [a, b]})
            cases.append({"gate": g, "ids": [a, b], "debug": True})
    for k in (1, 2, 3):
        cases.append({"gate": "mov", "ids": [0, k]})
        cases.append({"gate": "mov", "ids": [k, 0]})
    for ax in "xyz":
        for n in range(256):
            for d in range(5):
                cases.append({"gate": "rot_" + ax, "id": (n + d) % 2, "n": n, "d": d, "mode": "hw"})
    return cases


def rot_cases_all():
    for ax in "xyz":
        for n in range(256):
            for d in range(256):
                yield {"gate": "rot_" + ax, "id": (n + d) % 2, "n": n, "d": d, "mode": "sim"}


def subclass_cases() -> List[Dict[str, Any]]:
    """every gate kind and placement once more with the gate object an instance of a subclass of the vanilla class"""
    cases = []
    for v in SUBCLASS_VARIANTS:
        for g in qm.NAMED:
            for q in (0, 1):
                cases.append({"gate": g, "id": q, "mode": "sim", "subclass": v})
            cases.append({"gate": g, "id": 1, "mode": "hw", "subclass": v})
        for g in ("cnot", "cphase"):
            for a, b in itertools.permutations(range(4), 2):
                cases.append({"gate": g, "ids": [a, b], "subclass": v})
            cases.append({"gate": g, "ids": [2, 1], "debug": True, "subclass": v})
        for k in (1, 2, 3):
            cases.append({"gate": "mov", "ids": [0, k], "subclass": v})
            cases.append({"gate": "mov", "ids": [k, 0], "subclass": v})
        for ax in "xyz":
            for n, d in [(1, 0), (3, 2), (24, 4), (77, 3), (255, 4)]:
                cases.append({"gate": "rot_" + ax, "id": (n + d) % 2, "n": n, "d": d, "mode": "hw", "subclass": v})
            for n, d in [(1, 0), (3, 2), (24, 4), (32, 5), (255, 255), (200, 9)]:
                cases.append({"gate": "rot_" + ax, "id": (n + d) % 2, "n": n, "d": d, "mode": "sim", "subclass": v})
    return cases


def repeat_cases() -> List[Dict[str, Any]]:
    """the emitted instructions edited in place by the caller, then an equal input transpiled again"""
    cases = []
    for g in qm.NAMED:
        for q in (0, 1):
            cases.append({"gate": g, "id": q, "mode": "sim", "repeat": True})
    for g in ("cnot", "cphase"):
        for a, b in itertools.permutations(range(3), 2):
            cases.append({"gate": g, "ids": [a, b], "repeat": True})
    for k in (1, 2):
        cases.append({"gate": "mov", "ids": [0, k], "repeat": True})
        cases.append({"gate": "mov", "ids": [k, 0], "repeat": True})
    for ax in "xyz":
        cases.append({"gate": "rot_" + ax, "id": 1, "n": 5, "d": 3, "mode": "sim", "repeat": True})
        cases.append({"gate": "rot_" + ax, "id": 0, "n": 5, "d": 3, "mode": "hw", "repeat": True})
    return cases


# ------------------------------------------------------------------ published matrices edited in place by the caller

EDITS = ("negate", "zero", "phase", "entry", "scale", "identity", "transpose", "normalise")


def _apply_edit(M: np.ndarray, kind: str) -> None:
    """what a consumer may do to an array it was handed (all in place, never allocating a new array)"""
    if kind == "negate":
        M *= -1
    elif kind == "zero":
        M[...] = 0
    elif kind == "phase":
        if np.iscomplexobj(M):
            M *= 1j
        else:
            M *= -1
    elif kind == "entry":
        M[0, -1] = 3
    elif kind == "scale":
        M *= 2
    elif kind == "identity":
        M[...] = np.eye(M.shape[0], dtype=M.dtype)
    elif kind == "transpose":
        M[...] = M.T.copy()
    elif kind == "normalise":
        # make the first non-zero entry real and positive (global-phase normalisation)
        first = M.flat[np.flatnonzero(np.abs(M) > 1e-12)[0]]
        if np.iscomplexobj(M):
            M /= first / abs(first)
        elif first < 0:
            M *= -1
    else:
        raise HarnessError(kind)


_PACKAGE_ARRAYS: List[Any] = []


def _package_arrays():
    """(array object, pristine copy) for every numpy array held at module level (directly or in a list/tuple/dict) by the
    modules the published matrices come from; taken once, before this check edits anything"""
    if not _PACKAGE_ARRAYS:
        import sys

        seen = set()
        for modname in ("netqasm.util.quantum_gates", "netqasm.lang.instr.core", "netqasm.lang.instr.vanilla", "netqasm.lang.instr.nv"):
            mod = sys.modules.get(modname)
            if mod is None:
                continue
            for v in list(vars(mod).values()):
                vs = list(v.values()) if isinstance(v, dict) else list(v) if isinstance(v, (list, tuple)) else [v]
                for a in vs:
                    if isinstance(a, np.ndarray) and id(a) not in seen:
                        seen.add(id(a))
                        _PACKAGE_ARRAYS.append((a, a.copy()))
        _PACKAGE_ARRAYS.append((None, None))
    return [(a, c) for a, c in _PACKAGE_ARRAYS if a is not None]


def _restore_package_arrays() -> int:
    """isolation between cases: a case that managed to change an array inside the package must not decide later cases"""
    k = 0
    for a, c in _package_arrays():
        if a.shape != c.shape or not np.array_equal(a, c):
            try:
                a.setflags(write=True)
                a[...] = c
            except Exception:
                pass
            k += 1
    return k


def _matrix_classes() -> List[List[str]]:
    seen = []
    for c in matrix_cases():
        k = [c["module"], c["cls"]]
        if k not in seen:
            seen.append(k)
    return sorted(seen)


def _published(modname, clsname, n, d):
    """(instruction, reference full operator or None for mov, reference target operator or None)"""
    from netqasm.lang.instr import core, nv, vanilla
    from netqasm.lang.operand import Immediate

    cls = getattr({"vanilla": vanilla, "nv": nv}[modname], clsname)
    mn = cls.mnemonic
    if issubclass(cls, core.RotationInstruction):
        return cls(reg=_Q(0), imm0=Immediate(n), imm1=Immediate(d)), qm.rot(mn[-1], qm.angle(n, d)), None
    if issubclass(cls, core.ControlledRotationInstruction):
        return cls(reg0=_Q(0), reg1=_Q(1), imm0=Immediate(n), imm1=Immediate(d)), qm.crot(mn[-1], qm.angle(n, d)), qm.rot(mn[-1], qm.angle(n, d))
    if issubclass(cls, core.TwoQubitInstruction):
        if mn == "mov":
            return cls(reg0=_Q(0), reg1=_Q(1)), None, None
        return cls(reg0=_Q(0), reg1=_Q(1)), {"cnot": qm.CNOT, "cphase": qm.CZ}[mn], {"cnot": qm.X, "cphase": qm.Z}[mn]
    if mn not in qm.NAMED:
        raise HarnessError(f"no reference operator for mnemonic {mn}")
    return cls(reg=_Q(0)), qm.NAMED[mn], None


def _query(ins, want, tgt, which, case, history):
    """ask the instruction for its matrix, compare with the reference, hand the very object back"""
    mn = ins.mnemonic
    modname = type(ins).__module__.rsplit(".", 1)[-1]
    if which == "target" and tgt is not None and hasattr(ins, "to_matrix_target_only"):
        raw, ref, meth = ins.to_matrix_target_only(), tgt, "to_matrix_target_only"
    else:
        raw, ref, meth = ins.to_matrix(), want, "to_matrix"
    M = np.array(raw, dtype=complex)  # a copy: the comparison never touches what the package returned
    if ref is None:
        try:
            _check_mov(M, 0, 1, 2, case)
            ok = True
        except Failure:
            ok = False
    else:
        ok = M.shape == ref.shape and qm.equal_up_to_phase(M, ref, TOL)
    if not ok:
        if history:
            raise Failure("matrix:changed-after-caller-edit", case, f"{type(ins).__name__}.{meth}() for {ins} ({modname}) is no longer the operator of '{mn}' after a caller edited arrays it had been handed earlier in place ({'; '.join(history)}): got {np.round(M, 3).tolist()}")
        raise Failure(f"matrix:{modname}:{mn}", case, f"{type(ins).__name__}.{meth}() for {ins} is not the operator of '{mn}'")
    return raw, meth


def check_matrix_edits(case) -> None:
    """Published matrices stay the operators of their mnemonics whatever a caller does with an array it was handed:
    query, compare, edit the returned array in place, query again (same instruction object, an equal new one, other
    classes); at the end every class is asked once more."""
    _restore_package_arrays()
    try:
        history: List[str] = []
        made: List[Any] = []
        for i, stp in enumerate(case["steps"]):
            if stp.get("reuse") is not None and made:
                ins, want, tgt = made[stp["reuse"] % len(made)]
            else:
                ins, want, tgt = _published(stp["module"], stp["cls"], stp["n"], stp["d"])
            made.append((ins, want, tgt))
            raw, meth = _query(ins, want, tgt, stp["which"], case, history)
            if isinstance(raw, np.ndarray) and raw.flags.writeable:
                try:
                    _apply_edit(raw, stp["edit"])
                    history.append(f"{stp['edit']} on {type(ins).__module__.rsplit('.', 1)[-1]}.{type(ins).__name__}.{meth}()")
                except (TypeError, ValueError):
                    pass  # numpy refused the edit for this dtype (e.g. true division of an integer array)
            # the same object asked again straight away
            _query(ins, want, tgt, stp["which"], case, history)
        n, d = case["sweep"]
        for modname, clsname in _matrix_classes():
            ins, want, tgt = _published(modname, clsname, n, d)
            _query(ins, want, tgt, "full", case, history)
            _query(ins, want, tgt, "target", case, history)
        return len(history)
    finally:
        _restore_package_arrays()


@st.composite
def st_matrix_edits(draw):
    classes = _matrix_classes()
    steps = []
    for i in range(draw(st.integers(1, 5))):
        m, c = draw(st.sampled_from(classes))
        steps.append({
            "module": m, "cls": c,
            "n": draw(st.integers(0, 255)), "d": draw(st.one_of(st.integers(0, 6), st.integers(0, 255))),
            "edit": draw(st.sampled_from(EDITS)), "which": draw(st.sampled_from(["full", "full", "target"])),
            "reuse": draw(st.one_of(st.none(), st.integers(0, 4))) if i else None,
        })
    return {"gate": "matrix-edits", "steps": steps, "sweep": [draw(st.integers(1, 31)), draw(st.integers(1, 5))]}


def shard(ctx: Ctx) -> None:
    stt = ctx.stats

    def run(case, label):
        stt.case(case, True, [label, case["gate"]], sample=case if case["gate"] not in ("rot_x", "rot_y", "rot_z") or stt.evaluations % 997 == 0 else None)
        ctx.attempt(case, check_matrix if case["gate"] == "matrix" else check_case, case)

    if ctx.shard == 0:
        fc = fixed_cases()
        for c in fc:
            run(c, "enum")
        stt.exhaustive_domains["named gates x placement x mode; cnot/cphase all ordered id pairs of {0..3}; mov both directions; hardware-mode rotations 3x256x5"] = len(fc)
        mc = matrix_cases()
        for c in mc:
            run(c, "matrix")
        stt.exhaustive_domains["published matrices of all vanilla/nv instruction classes"] = len(mc)
        sc = subclass_cases()
        for c in sc:
            run(c, "enum-subclass-instance")
        stt.exhaustive_domains["gate object an instance of a subclass (3 kinds) of the vanilla class: named gates x placement, cnot/cphase all ordered id pairs, mov, rotations"] = len(sc)
        rc = repeat_cases()
        for c in rc:
            run(c, "enum-repeat-after-output-edit")
        stt.exhaustive_domains["emitted instructions edited in place by the caller, equal input transpiled again"] = len(rc)
    if ctx.thorough():
        k = 0
        for i, c in enumerate(rot_cases_all()):
            if i % ctx.nshards == ctx.shard:
                run(c, "enum-rot")
                k += 1
        stt.exhaustive_domains["simulation-mode rotations 3 x 256 x 256"] = k
    else:
        k = 0
        for c in rot_cases_all():
            if c["d"] <= 5:
                run(c, "enum-rot")
                k += 1
        stt.exhaustive_domains["simulation-mode rotations 3 x 256 x d<=5"] = k

        def body(t):
            ax, n, d, q = t
            c = {"gate": "rot_" + ax, "id": q, "n": n, "d": d, "mode": "sim"}
            stt.case(c, True, ["hyp-rot"])
            check_case(c)

        ctx.search(st.tuples(st.sampled_from("xyz"), st.integers(0, 255), st.integers(0, 255), st.integers(0, 1)), body, 2000, name="c07-rot")

    def body_seq(case):
        cc = sum(1 for g_ in case["gates"] if g_[0] in ("cnot", "cphase") and 0 not in g_[1])
        stt.case(case, True, ["sequence", f"carbon-carbon:{min(cc, 3)}"] + (["sequence:subclass-instances"] if any(case.get("subclass") or ()) else []), sample=case if cc >= 2 and len(stt.samples) < 5 else None)
        check_sequence(case)

    ctx.search(st_sequence(), body_seq, 1500 if ctx.tier == "quick" else 4000, name="c07-seq", salt=2)

    def body_edits(case):
        applied = check_matrix_edits(case)
        stt.case(case, applied > 0, ["matrix-edits", f"edits-applied:{min(applied, 3)}"] + sorted({"edit:" + s_["edit"] for s_ in case["steps"]}) + (["matrix-edits:same-instruction-object-reused"] if any(s_.get("reuse") is not None for s_ in case["steps"]) else []), sample=case if len(stt.samples) < 6 and applied >= 2 else None)

    ctx.search(st_matrix_edits(), body_edits, 400 if ctx.tier == "quick" else 2000, name="c07-matrix-edits", salt=3)


@st.composite
def st_sequence(draw):
    """straight-line SDK-idiom gate sequences over several Q registers: the expansion of one gate must not disturb the next"""
    nq = draw(st.integers(2, 4))
    regs = [0, 1, 2, 3, 4, 5]
    gates = []
    for _ in range(draw(st.integers(2, 6))):
        k = draw(st.integers(0, 5))
        if k <= 3 and nq >= 2:
            a = draw(st.integers(0, nq - 1))
            b = draw(st.sampled_from([x for x in range(nq) if x != a]))
            ra = draw(st.sampled_from(regs))
            rb = draw(st.sampled_from([r for r in regs if r != ra]))
            gates.append([draw(st.sampled_from(["cnot", "cphase"])), [a, b], [ra, rb]])
        elif k == 4:
            gates.append([draw(st.sampled_from(sorted(qm.NAMED))), [draw(st.integers(0, nq - 1))], [draw(st.sampled_from(regs))]])
        else:
            gates.append(["rot_" + draw(st.sampled_from("xyz")), [draw(st.integers(0, nq - 1))], [draw(st.sampled_from(regs))], draw(st.integers(0, 31)), draw(st.integers(0, 4))])
    case = {"gate": "sequence", "nq": nq, "gates": gates, "persist": draw(st.booleans()), "debug": draw(st.integers(0, 3)) == 0}
    # some or all gate objects are instances of subclasses of the vanilla classes (None = the vanilla class itself)
    if draw(st.integers(0, 2)) == 0:
        case["subclass"] = [draw(st.sampled_from((None,) + SUBCLASS_VARIANTS)) for _ in gates]
    return case


def check_sequence(case) -> None:
    from netqasm.lang.instr import vanilla
    from netqasm.lang.operand import Immediate

    nq = case["nq"]
    instrs = []
    want = np.eye(2**nq, dtype=complex)
    cls1 = {"x": vanilla.GateXInstruction, "y": vanilla.GateYInstruction, "z": vanilla.GateZInstruction, "h": vanilla.GateHInstruction,
            "k": vanilla.GateKInstruction, "s": vanilla.GateSInstruction, "t": vanilla.GateTInstruction}
    holds: Dict[int, int] = {}
    subs = case.get("subclass") or [None] * len(case["gates"])
    tag = ":subclass-instance" if any(subs) else ""
    for gte, sub in zip(case["gates"], subs):
        name, ids, regs = gte[0], gte[1], gte[2]
        for r, q in zip(regs, ids):
            # SDK idiom sets the register before every gate; with "persist" a register that already holds the id is reused
            if not (case.get("persist") and holds.get(r) == q):
                instrs.append(_set(_Q(r), q))
            holds[r] = q
        if name in ("cnot", "cphase"):
            instrs.append(_gate_cls(vanilla.CnotInstruction if name == "cnot" else vanilla.CphaseInstruction, sub)(reg0=_Q(regs[0]), reg1=_Q(regs[1])))
            want = qm.embed(qm.CNOT if name == "cnot" else qm.CZ, ids, nq) @ want
        elif name.startswith("rot_"):
            c = _gate_cls({"rot_x": vanilla.RotXInstruction, "rot_y": vanilla.RotYInstruction, "rot_z": vanilla.RotZInstruction}[name], sub)
            instrs.append(c(reg=_Q(regs[0]), imm0=Immediate(gte[3]), imm1=Immediate(gte[4])))
            want = qm.embed(qm.rot(name[-1], qm.angle(gte[3], gte[4])), ids, nq) @ want
        else:
            instrs.append(_gate_cls(cls1[name], sub)(reg=_Q(regs[0])))
            want = qm.embed(qm.NAMED[name], ids, nq) @ want
    out = transpile(instrs, debug=bool(case.get("debug")))
    try:
        U = sequence_unitary(out, nq)
    except Failure as f:
        raise Failure(f.signature + tag, case, f.message)
    except KeyError as e:
        raise Failure("sequence:undefined-register" + tag, case, f"the emitted sequence uses a Q register that was never set: {e}")
    if not qm.equal_up_to_phase(U, want, 1e-8):
        raise Failure("sequence:unitary" + tag, case, f"NV expansion of the gate sequence {case['gates']} differs from the vanilla circuit (distance {qm.phase_distance(U, want):.3g}); emitted: {[str(i) for i in out][:40]}")


def replay(case):
    if case.get("gate") == "matrix-edits":
        try:
            check_matrix_edits(case)
        except Failure as f:
            return f
        return None
    if case.get("gate") == "sequence":
        try:
            check_sequence(case)
        except Failure as f:
            return f
        return None
    try:
        if case.get("gate") == "matrix":
            check_matrix(case)
        elif "gate" in case:
            check_case(case)
        else:
            return None
    except Failure as f:
        return f
    return None
