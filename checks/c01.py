"""C01 — binary subroutine codec is lossless and uniquely decodable per flavour.

Oracles: (a) round-trip decode(encode(S)) == S (instructions incl. class identity, app id, version);
(b) per-flavour opcode/mnemonic tables are injective and dispatch to the class itself (complete
enumeration); (c) byte level: arbitrary 7-byte commands with a valid opcode either fail to decode
or are a fixed point of decode . encode . decode, and re-encode to canonical bytes that decode equal;
(d) history: a decoding result belongs to the caller - after it was edited in place (array operands relocated,
instruction fields replaced, list emptied) the same bytes decode to the encoded sequence again; (e) per class,
every pair of 8-bit operand positions: one operand over all 256 values x the other over a set of small / power-of-two
values (quick), all 65536 pairs (thorough), plus Hypothesis-drawn full rows.
"""
from __future__ import annotations

import copy

from hypothesis import strategies as st

from vlib import gen_instr as g
from vlib.runner import Ctx, Failure, HarnessError

LEVEL = "exploration"
RULE = (
    "Hypothesis-generated subroutines (0..40 instructions of one flavour, boundary-biased operands, app ids "
    "0..65535, version bytes 0..255) round-tripped through bytes(); complete enumeration of the opcode/mnemonic "
    "tables; random byte strings with valid opcodes; thorough adds every class x every register position x all 64 "
    "registers.  Every round-trip case also edits its decoding results in place (Hypothesis-drawn offset / register) and "
    "decodes the same bytes again.  Per class and pair of 8-bit operand positions a value grid (256 x special values; "
    "thorough: 256 x 256) with Hypothesis-drawn registers.  Non-trivial = subroutine with >=2 distinct operand shapes or >=1 operand at a width boundary "
    "(byte-level: decodes successfully); distinct by SHA-1 of the encoded bytes"
)
ASSUMPTIONS = ["operand ranges are those of the format (registers 4 banks x 16, u8, i32, uint16 app id)"]
SHARDS = {"quick": 1, "thorough": 16}


import functools


@functools.lru_cache(maxsize=None)
def _flav(fname):
    return g.FLAVOURS[fname]()


def check_tables(ctx: Ctx) -> None:
    stt = ctx.stats
    n = 0
    for fname in g.FLAVOURS:
        fl = _flav(fname)
        classes = g.flavour_classes(fname)
        by_id = {}
        by_name = {}
        for c in classes:
            n += 1
            case = {"kind": "table", "flavour": fname, "cls": c.__name__}
            stt.case(["table", fname, c.__name__], True, ["table"], sample=case)
            if c.id in by_id:
                ctx.fail(Failure(f"dup-opcode:{fname}:{c.id}", case, f"{fname}: opcode {c.id} shared by {by_id[c.id].__name__} and {c.__name__}"))
            by_id.setdefault(c.id, c)
            if c.mnemonic in by_name:
                ctx.fail(Failure(f"dup-mnemonic:{fname}:{c.mnemonic}", case, f"{fname}: mnemonic {c.mnemonic} shared by {by_name[c.mnemonic].__name__} and {c.__name__}"))
            by_name.setdefault(c.mnemonic, c)
            if fl.id_map.get(c.id) is not c:
                ctx.fail(Failure(f"id_map:{fname}:{c.mnemonic}", case, f"{fname}: opcode {c.id} dispatches to {fl.id_map.get(c.id)} instead of {c.__name__}"))
            if fl.name_map.get(c.mnemonic) is not c:
                ctx.fail(Failure(f"name_map:{fname}:{c.mnemonic}", case, f"{fname}: mnemonic {c.mnemonic} dispatches to {fl.name_map.get(c.mnemonic)}"))
            if not (0 <= c.id <= 255):
                ctx.fail(Failure(f"opcode-range:{fname}:{c.mnemonic}", case, f"opcode {c.id} does not fit one byte"))
    stt.exhaustive_domains["opcode/mnemonic tables of all flavours"] = n


def check_roundtrip(j) -> None:
    from netqasm.lang.parsing import deserialize

    fname = j["flavour"]
    sub = g.build_subroutine(j)
    case = {"kind": "sub", **j}
    try:
        raw = bytes(sub)
    except Exception as e:
        raise Failure("roundtrip:encode-raises", case, f"encoding an in-range subroutine raised {type(e).__name__}: {e}")
    if len(raw) != 4 + 7 * len(sub.instructions):
        raise Failure("roundtrip:length", case, f"{len(raw)} bytes for {len(sub.instructions)} instructions")
    try:
        back = deserialize(raw, flavour=_flav(fname))
    except Exception as e:
        raise Failure("roundtrip:decode-raises", case, f"decoding own bytes raised {type(e).__name__}: {e}")
    if back.app_id != j["app_id"]:
        raise Failure("roundtrip:app_id", case, f"app id {j['app_id']} came back as {back.app_id}")
    if tuple(back.netqasm_version) != tuple(j["version"]):
        raise Failure("roundtrip:version", case, f"version {j['version']} came back as {back.netqasm_version}")
    if len(back.instructions) != len(sub.instructions):
        raise Failure("roundtrip:count", case, "instruction count changed")
    for k, (a, b) in enumerate(zip(sub.instructions, back.instructions)):
        if type(a) is not type(b) or a != b:
            raise Failure(f"roundtrip:instr:{fname}:{a.mnemonic}", case, f"instruction {k}: {a} decoded as {b} ({type(b).__name__})")
    # a long-lived Deserializer object (as a controller keeps one) must agree with a fresh one, whatever it was fed before
    try:
        back2 = _persistent_deserializer(fname).deserialize_subroutine(raw)
    except Exception as e:
        raise Failure("roundtrip:reused-deserializer-raises", case, f"a reused Deserializer raised {type(e).__name__}: {e} on bytes a fresh one decodes")
    if back2.instructions != sub.instructions or back2.app_id != j["app_id"]:
        raise Failure("roundtrip:reused-deserializer", case, "a reused Deserializer decodes the same bytes differently from a fresh one")
    # ... and what it returned stays what it was when the same object decodes something else afterwards
    _persistent_deserializer(fname).deserialize_subroutine(_other_bytes())
    if back2.instructions != sub.instructions or back2.app_id != j["app_id"]:
        raise Failure("roundtrip:earlier-result-changed", case, f"the subroutine a reused Deserializer returned changed when it decoded another one: now {[str(i) for i in back2.instructions][:4]}")
    # a decoding result belongs to whoever asked for it: after the caller edited it in place (arrays relocated, index
    # registers renamed, instruction fields replaced, list emptied) the same bytes still decode to what was encoded
    edit = j.get("edit") or _DEFAULT_EDIT
    ref = g.build_subroutine(j)  # built afresh from the JSON form: shares no object with anything decoded
    _edit_in_place(back, edit)
    _edit_in_place(back2, edit)
    for how, dec in (("fresh", lambda: deserialize(raw, flavour=_flav(fname))), ("long-lived", lambda: _persistent_deserializer(fname).deserialize_subroutine(raw))):
        try:
            again = dec()
        except Exception as e:
            raise Failure(f"roundtrip:redecode-after-edit-raises:{how}", case, f"decoding the same bytes again ({how} decoder) after an earlier decoding result was edited in place raised {type(e).__name__}: {e}")
        if again.app_id != j["app_id"] or tuple(again.netqasm_version) != tuple(j["version"]) or len(again.instructions) != len(ref.instructions):
            raise Failure(f"roundtrip:redecode-after-edit:{how}:header", case, f"after an earlier decoding result was edited in place the same bytes decode ({how} decoder) to app id {again.app_id}, version {again.netqasm_version}, {len(again.instructions)} instructions")
        for k, (a, b) in enumerate(zip(ref.instructions, again.instructions)):
            if type(a) is not type(b) or a != b or g.instr_to_json(a) != g.instr_to_json(b):
                raise Failure(f"roundtrip:redecode-after-edit:{how}:{_operand_kinds(type(a))}", case, f"an earlier decoding result of these bytes was edited in place by its owner (edit {edit}); decoding the same bytes again ({how} decoder) gives instruction {k} = {b} instead of the encoded {a}")
    # in-place edits of the instruction list must show up in the next encoding
    if sub.instructions:
        import copy as _copy

        sub.instructions.append(_copy.deepcopy(sub.instructions[0]))
        try:
            again = deserialize(bytes(sub), flavour=_flav(fname))
        except Exception as e:
            raise Failure("roundtrip:reserialise-raises:append", case, f"re-serialising after instructions.append raised {type(e).__name__}: {e}")
        if again.instructions != sub.instructions:
            raise Failure("roundtrip:stale-after-append", case, f"after appending an instruction in place the encoded bytes decode to {len(again.instructions)} instructions instead of {len(sub.instructions)}")
        sub.instructions.pop()
    # the same object serialised again after it was given to another application (instantiate / app_id setter):
    # the bytes must follow the object's current state, not an earlier serialisation
    for how, new_id in (("instantiate", (j["app_id"] * 7 + 1) % 65536), ("setter", (j["app_id"] * 7 + 2) % 65536), ("instantiate", 0), ("setter", 0)):
        try:
            if how == "instantiate":
                sub.instantiate(new_id, {})
            else:
                sub.app_id = new_id
            again = deserialize(bytes(sub), flavour=_flav(fname))
        except Exception as e:
            raise Failure(f"roundtrip:reserialise-raises:{how}", case, f"re-serialising after {how} raised {type(e).__name__}: {e}")
        if again.app_id != new_id or again.instructions != sub.instructions or tuple(again.netqasm_version) != tuple(j["version"]):
            raise Failure(f"roundtrip:stale-after-{how}", case, f"after {how} to application {new_id} the encoded bytes decode with app id {again.app_id}, version {again.netqasm_version}")


_DEFAULT_EDIT = {"offset": 10, "reg": "C9"}


def _operand_kinds(cls) -> str:
    return "+".join(k for _n, k in g.shape_of(cls)) or "none"


def _wrap32(v: int) -> int:
    return (v - g.I32_MIN) % 2**32 + g.I32_MIN


def _edit_in_place(subroutine, edit) -> int:
    """What the owner of a decoded subroutine may do with ITS copy (a linker-like pass): every array operand is
    relocated and re-indexed in place, every operand field of every instruction is replaced by another (encodable)
    operand, finally the application id is changed and the instruction list emptied.  Returns the number of array
    operands edited in place."""
    from netqasm.lang import operand as op

    off = edit["offset"]
    reg = g.reg_from_str(edit["reg"])
    n = 0
    for instr in list(subroutine.instructions):
        for name, kind in g.shape_of(type(instr)):
            o = getattr(instr, name)
            if kind == "entry":
                o.address = op.Address(_wrap32(o.address.address + off))
                o.index = reg
                n += 1
                new = op.ArrayEntry(op.Address(_wrap32(o.address.address + off)), reg)
            elif kind == "slice":
                o.address = op.Address(_wrap32(o.address.address + off))
                o.start, o.stop = o.stop, reg
                n += 1
                new = op.ArraySlice(op.Address(_wrap32(o.address.address + off)), reg, reg)
            elif kind == "reg":
                new = reg
            elif kind == "u8":
                new = op.Immediate((o.value + off) % 256)
            elif kind == "i32":
                new = op.Immediate(_wrap32(o.value + off))
            else:
                new = op.Address(_wrap32(o.address + off))
            setattr(instr, name, new)
    subroutine.app_id = ((subroutine.app_id or 0) + 1) % 65536
    if subroutine.instructions:
        subroutine.instructions.reverse()
        del subroutine.instructions[len(subroutine.instructions) // 2 :]
    return n


st_edit = st.fixed_dictionaries({"offset": st.sampled_from([1, -1, 10, 256, g.I32_MAX]) | st.integers(-1000, 1000).filter(bool), "reg": g.st_reg})


def st_array_subroutine(fname: str, max_len: int):
    few_addr = st.sampled_from([0, 1, 2, 4, g.I32_MAX, g.I32_MIN]) | g.st_i32
    few_reg = st.sampled_from(["R0", "R1", "R2", "C15", "Q2"]) | g.st_reg

    def operand(kind):
        if kind == "entry":
            return st.builds(lambda a, i: {"addr": a, "idx": i}, few_addr, few_reg)
        if kind == "slice":
            return st.builds(lambda a, b, e: {"addr": a, "start": b, "stop": e}, few_addr, few_reg, few_reg)
        return g.st_operand(kind)

    arr = [c for c in g.flavour_classes(fname) if any(k in ("entry", "slice") for _n, k in g.shape_of(c))]
    one = st.one_of([st.tuples(*[operand(k) for _n, k in g.shape_of(c)]).map(lambda vals, c=c: [c.__name__, c.mnemonic, list(vals)]) for c in arr])
    return st.fixed_dictionaries(
        {
            "flavour": st.just(fname),
            "app_id": st.sampled_from([0, 65535]) | st.integers(0, 65535),
            "version": st.tuples(g.st_u8, g.st_u8).map(list),
            "instrs": st.lists(one | one | g.st_instr(fname), min_size=1, max_size=max_len),
            "edit": st_edit,
        }
    )


# ------------------------------------------------------------------ value grids over pairs of 8-bit operands

# values a value-dependent branch of an encoder / decoder typically singles out: small numbers, powers of two and
# their neighbours, the extremes
U8_SPECIAL = sorted(set(range(0, 9)) | {15, 16, 17, 31, 32, 33, 63, 64, 127, 128, 255})


def u8_pairs(cls):
    pos = [i for i, (_n, k) in enumerate(g.shape_of(cls)) if k == "u8"]
    return [(p, q) for p in pos for q in pos if p < q]


def check_grid(fname: str, cls, regs, p: int, q: int, pvals, qvals, others: int = 0) -> int:
    """every (a, b) in pvals x qvals at operand positions p, q of one class (registers `regs`, remaining 8-bit
    operands `others`), encoded as one subroutine and decoded; the oracle compares the decoded operands with the
    integers that were put in"""
    from netqasm.lang.parsing import deserialize
    from netqasm.lang.subroutine import Subroutine

    shape = g.shape_of(cls)
    imm = _immediates()
    fixed = {}
    ri = 0
    for i, (name, kind) in enumerate(shape):
        if kind == "reg":
            fixed[name] = g.reg_from_str(regs[ri])
            ri += 1
        elif kind == "u8":
            fixed[name] = imm[others]
        else:
            raise HarnessError(f"{cls.__name__}: grid over a class with operand kind {kind}")
    np_, nq = shape[p][0], shape[q][0]
    grid = [(a, b) for a in pvals for b in qvals]
    instrs = []
    for a, b in grid:
        kw = dict(fixed)
        kw[np_] = imm[a]
        kw[nq] = imm[b]
        instrs.append(cls(**kw))

    def case_of(a, b):
        vals = []
        r = 0
        for i, (_n, kind) in enumerate(shape):
            if kind == "reg":
                vals.append(regs[r])
                r += 1
            else:
                vals.append(a if i == p else b if i == q else others)
        return {"kind": "sub", "flavour": fname, "app_id": 0, "version": [0, 0], "instrs": [[cls.__name__, cls.mnemonic, vals]]}

    try:
        raw = bytes(Subroutine(instructions=instrs, netqasm_version=(0, 0), app_id=0))
        got = deserialize(raw, flavour=_flav(fname)).instructions
    except Exception as e:
        # find the single instruction that cannot be encoded / decoded
        for a, b in grid:
            c = case_of(a, b)
            try:
                deserialize(bytes(g.build_subroutine(c)), flavour=_flav(fname))
            except Exception as e1:
                raise Failure(f"grid:raises:{fname}:{cls.mnemonic}", c, f"encoding / decoding {cls.mnemonic} with in-range operands {c['instrs'][0][2]} raised {type(e1).__name__}: {e1}")
        raise Failure(f"grid:raises:{fname}:{cls.mnemonic}", case_of(*grid[0]), f"encoding / decoding {len(grid)} {cls.mnemonic} instructions in one subroutine raised {type(e).__name__}: {e}")
    if len(got) != len(instrs):
        raise Failure(f"grid:count:{fname}:{cls.mnemonic}", case_of(*grid[0]), f"{len(instrs)} {cls.mnemonic} instructions decoded as {len(got)}")
    for (a, b), sent, back in zip(grid, instrs, got):
        if type(back) is cls and back == sent:
            continue
        c = case_of(a, b)
        raise Failure(f"grid:operand-pair:{fname}:{cls.mnemonic}", c, f"{fname}: '{sent}' (operands {c['instrs'][0][2]}) decoded as '{back}' ({type(back).__name__}): the codec is not lossless at 8-bit operands ({a}, {b}) in positions ({p}, {q})")
    # independent of the instruction classes' own __eq__: the integers and registers that come back
    for (a, b), back in zip(grid, got):
        c = case_of(a, b)
        if [g.operand_to_json(o) for o in back.operands] != c["instrs"][0][2]:
            raise Failure(f"grid:operand-pair:{fname}:{cls.mnemonic}", c, f"{fname}: {cls.mnemonic} {c['instrs'][0][2]} decoded with operands {[g.operand_to_json(o) for o in back.operands]}")
    return len(grid)


@functools.lru_cache(maxsize=None)
def _immediates():
    from netqasm.lang import operand as op

    return [op.Immediate(v) for v in range(256)]  # frozen dataclass instances: sharing them is harmless


def grid_targets():
    """(flavour, class, p, q) for every class with two or more 8-bit operands, in table order"""
    out = []
    for fname in g.FLAVOURS:
        for cls in g.flavour_classes(fname):
            for p, q in u8_pairs(cls):
                out.append((fname, cls, p, q))
    return out


def n_regs(cls) -> int:
    return sum(1 for _n, k in g.shape_of(cls) if k == "reg")


@functools.lru_cache(maxsize=None)
def _other_bytes() -> bytes:
    """some other subroutine (two core instructions, valid in every flavour)"""
    return bytes(g.build_subroutine({"flavour": "vanilla", "app_id": 9, "version": [0, 10], "instrs": [["SetInstruction", "set", ["R1", 5]], ["SetInstruction", "set", ["R2", 6]]]}))


@functools.lru_cache(maxsize=None)
def _persistent_deserializer(fname):
    from netqasm.lang.parsing.binary import Deserializer

    return Deserializer(_flav(fname))


def check_bytes(fname: str, raw: bytes) -> bool:
    """returns True if the bytes decoded"""
    from netqasm.lang.parsing import deserialize

    case = {"kind": "bytes", "flavour": fname, "hex": raw.hex()}
    try:
        p1 = _persistent_deserializer(fname).deserialize_subroutine(raw)  # may raise: truncated / unknown opcode inputs are fine
    except Exception:
        p1 = None
    try:
        f1 = deserialize(raw, flavour=_flav(fname))
    except Exception:
        f1 = None
    if (p1 is None) != (f1 is None) or (p1 is not None and (p1.instructions != f1.instructions or p1.app_id != f1.app_id)):
        raise Failure("bytes:reused-deserializer", case, "a long-lived Deserializer object and a fresh one disagree on these bytes (its behaviour depends on what it decoded before)")
    try:
        s1 = deserialize(raw, flavour=_flav(fname))
    except Exception:
        return False  # rejected: fine
    try:
        raw2 = bytes(s1)
        s2 = deserialize(raw2, flavour=_flav(fname))
    except Exception as e:
        raise Failure("bytes:reencode-raises", case, f"decoded program cannot be re-encoded/decoded: {type(e).__name__}: {e}")
    if s1.instructions != s2.instructions or s1.app_id != s2.app_id or tuple(s1.netqasm_version) != tuple(s2.netqasm_version):
        raise Failure("bytes:not-fixed-point", case, "decode(encode(decode(b))) != decode(b)")
    if [type(i) for i in s1.instructions] != [type(i) for i in s2.instructions]:
        raise Failure("bytes:class-changed", case, "instruction classes changed across re-encoding")
    return True


def st_bytes(fname: str):
    opcodes = sorted({c.id for c in g.flavour_classes(fname)})
    cmd = st.tuples(st.sampled_from(opcodes), st.binary(min_size=6, max_size=6)).map(lambda t: bytes([t[0]]) + t[1])
    # favour commands whose register bytes are valid (top two bits clear)
    cmd2 = st.tuples(st.sampled_from(opcodes), st.lists(st.integers(0, 63), min_size=6, max_size=6)).map(
        lambda t: bytes([t[0]] + t[1])
    )
    good = st.tuples(st.binary(min_size=4, max_size=4), st.lists(cmd | cmd2, min_size=1, max_size=6)).map(lambda t: t[0] + b"".join(t[1]))
    # invalid inputs (truncated, unknown opcode) are rejected; they must not disturb later decoding
    bad = st.one_of(
        good.map(lambda b: b[:-3]),
        st.tuples(st.binary(min_size=4, max_size=4), st.binary(min_size=7, max_size=7)).map(lambda t: t[0] + b"\xee" + t[1][1:]),
        # decodable commands first, then one with an unknown opcode (the decoder gives up part-way)
        st.tuples(good, st.binary(min_size=6, max_size=6), st.sampled_from([0xEE, 0xFF, 0x7F])).map(lambda t: t[0] + bytes([t[2]]) + t[1]),
        st.tuples(good, st.binary(min_size=6, max_size=6), good).map(lambda t: t[0] + b"\xee" + t[1] + t[2][4:]),
    )
    return st.one_of(good, good, bad)


def check_same_bytes_across_flavours(ctx: Ctx) -> int:
    """the same 7 bytes are different instructions in different flavours: decode equal byte strings under alternating
    flavours (fresh helper and long-lived decoder objects), in both orders"""
    from checks.c02 import _ZERO
    from netqasm.lang.parsing import deserialize
    from netqasm.lang.subroutine import Subroutine
    from vlib import refenc

    items = []
    for fname in g.FLAVOURS:
        for cls in g.flavour_classes(fname):
            op = refenc.TABLE[fname].get(cls.mnemonic)
            if op is None:
                continue
            items.append((op[0] if isinstance(op, (tuple, list)) else op, fname, cls))
    n = 0
    fl = list(g.FLAVOURS)
    for order in (sorted(items, key=lambda t: (t[0], fl.index(t[1]))), sorted(items, key=lambda t: (t[0], -fl.index(t[1])))):
        for _rep in range(2):
            for _op, fname, cls in order:
                vals = [copy.deepcopy(_ZERO[k]) for _n, k in g.shape_of(cls)]
                instr = g.build(cls, vals)
                case = {"kind": "same-bytes", "flavour": fname, "cls": cls.__name__, "vals": vals}
                n += 1

                def one():
                    raw = bytes(Subroutine(instructions=[instr], netqasm_version=(0, 0), app_id=0))
                    for how, back in (("fresh", deserialize(raw, flavour=g.FLAVOURS[fname]())), ("long-lived", _persistent_deserializer(fname).deserialize_subroutine(raw))):
                        got = back.instructions
                        if len(got) != 1 or type(got[0]) is not cls or got[0] != instr:
                            raise Failure(f"roundtrip:cross-flavour:{fname}:{cls.mnemonic}", case, f"{instr} of flavour {fname} decoded ({how} decoder, after the same bytes were decoded under another flavour) as {[type(i).__module__.split('.')[-1] + '.' + type(i).__name__ for i in got]}")

                ctx.attempt(case, one)
    return n


def shard(ctx: Ctx) -> None:
    stt = ctx.stats
    if ctx.shard == 0:
        check_tables(ctx)
        stt.exhaustive_domains["every class with all-zero operands, decoded in opcode order across flavours (both orders)"] = check_same_bytes_across_flavours(ctx)
        from checks.c02 import all_distinct

        for fname in g.FLAVOURS:
            base = [[cls.__name__, cls.mnemonic, all_distinct(g.shape_of(cls))] for cls in g.flavour_classes(fname)]
            for n_long in (1001, 4100):
                j_long = {"flavour": fname, "app_id": 3, "version": [0, 10], "instrs": (base * (n_long // len(base) + 1))[:n_long]}
                ctx.attempt({"kind": "sub", **j_long}, check_roundtrip, j_long)
                stt.case(["long", fname, n_long], True, [f"flavour:{fname}", "len>1000"])
    n_sub = 1500 if ctx.tier == "quick" else 20000
    n_bytes = 600 if ctx.tier == "quick" else 6000
    for fi, fname in enumerate(g.FLAVOURS):

        def body(j):
            shapes = set()
            shapes_all = []
            bnd = False
            for cname, _m, vals in j["instrs"]:
                cls = g.class_by_name(j["flavour"], cname)
                sh = g.shape_of(cls)
                shapes.add(tuple(k for _n, k in sh))
                shapes_all.append(tuple(k for _n, k in sh))
                bnd = bnd or any(g.boundary_hit(k, v) for (_n, k), v in zip(sh, vals))
            labels = [f"flavour:{j['flavour']}"] + (["boundary"] if bnd else []) + [f"len>{10 * (len(j['instrs']) // 10)}"]
            n_arr = sum(1 for sh in shapes_all if "entry" in sh or "slice" in sh)
            if n_arr:
                labels.append("redecode-after-edit:array-operand-edited-in-place")
            if n_arr >= 2:
                labels.append("redecode-after-edit:>=2-array-operands")
            nt = len(shapes) >= 2 or bnd
            sample = None
            if nt and len(stt.samples) < stt.MAX_SAMPLES and len(j["instrs"]) <= 4:
                sample = j
            stt.case(j, nt, labels, sample=sample)
            check_roundtrip(j)

        ctx.search(g.st_subroutine(fname, 40), body, n_sub, name=f"c01-{fname}", salt=fi)
        # the same oracles on subroutines dense in array operands (few addresses / registers, so equal operands recur
        # within one subroutine and from one case to the next), with a Hypothesis-drawn in-place edit
        ctx.search(st_array_subroutine(fname, 12), body, 250 if ctx.tier == "quick" else 3000, name=f"c01-arrays-{fname}", salt=20 + fi)

        def body_b(raw, fname=fname):
            ok = check_bytes(fname, raw)
            stt.case(raw, ok, ["bytes:decoded" if ok else "bytes:rejected"])

        ctx.search(st_bytes(fname), body_b, n_bytes, name=f"c01-bytes-{fname}", salt=10 + fi)

    # ---- per class, per pair of 8-bit operand positions: value grids (an encoder / decoder overridden in one branch of
    # the class hierarchy, or a value-dependent branch, shows only for particular classes and operand values)
    targets = grid_targets()
    full = list(range(256))
    n_grid = 0
    for ti, (fname, cls, p, q) in enumerate(targets):
        if ti % ctx.nshards != ctx.shard:
            continue
        regs = [f"Q{i}" for i in range(n_regs(cls))]
        for pv, qv in ((full, full),) if ctx.thorough() else ((full, U8_SPECIAL), (U8_SPECIAL, full)):
            case = {"kind": "grid", "flavour": fname, "cls": cls.__name__, "regs": regs, "p": p, "q": q, "pvals": "all" if pv is full else "special", "qvals": "all" if qv is full else "special", "others": 0}
            n = [0]

            def one_grid():
                n[0] = check_grid(fname, cls, regs, p, q, pv, qv)

            ctx.attempt(case, one_grid)
            n_grid += n[0]
            stt.case(["grid", fname, cls.__name__, p, q, len(pv), len(qv)], True, [f"grid:{fname}:{cls.mnemonic}"])
    stt.exhaustive_domains["class x pair of 8-bit operand positions x (256 x 256 values)" if ctx.thorough() else f"class x pair of 8-bit operand positions x (256 x {len(U8_SPECIAL)} special values, both ways)"] = n_grid

    # Hypothesis-drawn rows of the same grids: any class, any pair of positions, one operand fixed at any value, the other
    # over all 256, any registers, any value for the remaining 8-bit operands
    def st_row():
        def of(t):
            fname, cls, p, q = t
            return st.tuples(st.lists(g.st_reg, min_size=n_regs(cls), max_size=n_regs(cls)), g.st_u8, st.booleans(), g.st_u8).map(
                lambda r: {"kind": "grid", "flavour": fname, "cls": cls.__name__, "regs": r[0], "p": p, "q": q, "pvals": [r[1]] if r[2] else "all", "qvals": "all" if r[2] else [r[1]], "others": r[3]}
            )

        return st.sampled_from(targets).flatmap(of)

    def body_row(d):
        nrow = run_grid_case(d)
        stt.case(d, nrow > 1, [f"grid-row:{d['flavour']}:{g.class_by_name(d['flavour'], d['cls']).mnemonic}"])

    ctx.search(st_row(), body_row, 150 if ctx.tier == "quick" else 1500, name="c01-grid-rows", salt=30)

    if ctx.thorough():
        # every class x every register operand position x all 64 registers (sharded round-robin)
        n = 0
        k = 0
        for fname in g.FLAVOURS:
            for cls in g.flavour_classes(fname):
                shape = g.shape_of(cls)
                from checks.c02 import _ZERO

                for pos, (_n, kind) in enumerate(shape):
                    subpos = {"reg": [None], "entry": ["idx"], "slice": ["start", "stop"]}.get(kind)
                    if not subpos:
                        continue
                    for sp in subpos:
                        k += 1
                        if k % ctx.nshards != ctx.shard:
                            continue
                        for bank in "RCQM":
                            for idx in range(16):
                                vals = [(_ZERO[kk] if not isinstance(_ZERO[kk], dict) else dict(_ZERO[kk])) for _nn, kk in shape]
                                r = f"{bank}{idx}"
                                if sp is None:
                                    vals[pos] = r
                                else:
                                    vals[pos][sp] = r
                                j = {"flavour": fname, "app_id": 0, "version": [0, 0], "instrs": [[cls.__name__, cls.mnemonic, vals]]}
                                n += 1
                                stt.case(j, True, ["enum:register-position"])
                                try:
                                    check_roundtrip(j)
                                except Failure as f:
                                    ctx.fail(f)
        stt.exhaustive_domains["class x register position x 64 registers"] = n


def _vals_of(v):
    return list(range(256)) if v == "all" else U8_SPECIAL if v == "special" else list(v)


def run_grid_case(d) -> int:
    return check_grid(d["flavour"], g.class_by_name(d["flavour"], d["cls"]), d["regs"], d["p"], d["q"], _vals_of(d["pvals"]), _vals_of(d["qvals"]), d.get("others", 0))


def replay(case):
    try:
        if case["kind"] == "sub":
            check_roundtrip({k: case[k] for k in ("flavour", "app_id", "version", "instrs", "edit") if k in case})
        elif case["kind"] == "grid":
            run_grid_case(case)
        elif case["kind"] == "bytes":
            check_bytes(case["flavour"], bytes.fromhex(case["hex"]))
        elif case["kind"] == "table":
            c = Ctx("C01", "quick", 0, 0, 1, [])
            check_tables(c)
            for f in c.stats.failures:
                if f["case"].get("flavour") == case["flavour"] and f["case"].get("cls") == case["cls"]:
                    return Failure(f["signature"], f["case"], f["message"])
    except Failure as f:
        return f
    return None
