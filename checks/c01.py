"""C01 — binary subroutine codec is lossless and uniquely decodable per flavour.

Oracles: (a) round-trip decode(encode(S)) == S (instructions incl. class identity, app id, version);
(b) per-flavour opcode/mnemonic tables are injective and dispatch to the class itself (complete
enumeration); (c) byte level: arbitrary 7-byte commands with a valid opcode either fail to decode
or are a fixed point of decode . encode . decode, and re-encode to canonical bytes that decode equal.
"""
from __future__ import annotations

import copy

from hypothesis import strategies as st

from vlib import gen_instr as g
from vlib.runner import Ctx, Failure

LEVEL = "exploration"
RULE = (
    "Hypothesis-generated subroutines (0..40 instructions of one flavour, boundary-biased operands, app ids "
    "0..65535, version bytes 0..255) round-tripped through bytes(); complete enumeration of the opcode/mnemonic "
    "tables; random byte strings with valid opcodes; thorough adds every class x every register position x all 64 "
    "registers.  Non-trivial = subroutine with >=2 distinct operand shapes or >=1 operand at a width boundary "
    "(byte-level: decodes successfully); distinct by SHA-1 of the encoded bytes"
)
ASSUMPTIONS = ["operand ranges are those of the format (registers 4 banks x 16, u8, i32, uint16 app id)"]
SHARDS = {"quick": 1, "thorough": 16}


import functools


@functools.lru_cache(maxsize=None)
def _flav(fname):
    return g.FLAVOURS[fname]()


def check_tables(ctx: Ctx) -> None:
    stt = ctx.stats
    n = 0
    for fname in g.FLAVOURS:
        fl = _flav(fname)
        classes = g.flavour_classes(fname)
        by_id = {}
        by_name = {}
        for c in classes:
            n += 1
            case = {"kind": "table", "flavour": fname, "cls": c.__name__}
            stt.case(["table", fname, c.__name__], True, ["table"], sample=case)
            if c.id in by_id:
                ctx.fail(Failure(f"dup-opcode:{fname}:{c.id}", case, f"{fname}: opcode {c.id} shared by {by_id[c.id].__name__} and {c.__name__}"))
            by_id.setdefault(c.id, c)
            if c.mnemonic in by_name:
                ctx.fail(Failure(f"dup-mnemonic:{fname}:{c.mnemonic}", case, f"{fname}: mnemonic {c.mnemonic} shared by {by_name[c.mnemonic].__name__} and {c.__name__}"))
            by_name.setdefault(c.mnemonic, c)
            if fl.id_map.get(c.id) is not c:
                ctx.fail(Failure(f"id_map:{fname}:{c.mnemonic}", case, f"{fname}: opcode {c.id} dispatches to {fl.id_map.get(c.id)} instead of {c.__name__}"))
            if fl.name_map.get(c.mnemonic) is not c:
                ctx.fail(Failure(f"name_map:{fname}:{c.mnemonic}", case, f"{fname}: mnemonic {c.mnemonic} dispatches to {fl.name_map.get(c.mnemonic)}"))
            if not (0 <= c.id <= 255):
                ctx.fail(Failure(f"opcode-range:{fname}:{c.mnemonic}", case, f"opcode {c.id} does not fit one byte"))
    stt.exhaustive_domains["opcode/mnemonic tables of all flavours"] = n


def check_roundtrip(j) -> None:
    from netqasm.lang.parsing import deserialize

    fname = j["flavour"]
    sub = g.build_subroutine(j)
    case = {"kind": "sub", **j}
    try:
        raw = bytes(sub)
    except Exception as e:
        raise Failure("roundtrip:encode-raises", case, f"encoding an in-range subroutine raised {type(e).__name__}: {e}")
    if len(raw) != 4 + 7 * len(sub.instructions):
        raise Failure("roundtrip:length", case, f"{len(raw)} bytes for {len(sub.instructions)} instructions")
    try:
        back = deserialize(raw, flavour=_flav(fname))
    except Exception as e:
        raise Failure("roundtrip:decode-raises", case, f"decoding own bytes raised {type(e).__name__}: {e}")
    if back.app_id != j["app_id"]:
        raise Failure("roundtrip:app_id", case, f"app id {j['app_id']} came back as {back.app_id}")
    if tuple(back.netqasm_version) != tuple(j["version"]):
        raise Failure("roundtrip:version", case, f"version {j['version']} came back as {back.netqasm_version}")
    if len(back.instructions) != len(sub.instructions):
        raise Failure("roundtrip:count", case, "instruction count changed")
    for k, (a, b) in enumerate(zip(sub.instructions, back.instructions)):
        if type(a) is not type(b) or a != b:
            raise Failure(f"roundtrip:instr:{fname}:{a.mnemonic}", case, f"instruction {k}: {a} decoded as {b} ({type(b).__name__})")
    # a long-lived Deserializer object (as a controller keeps one) must agree with a fresh one, whatever it was fed before
    try:
        back2 = _persistent_deserializer(fname).deserialize_subroutine(raw)
    except Exception as e:
        raise Failure("roundtrip:reused-deserializer-raises", case, f"a reused Deserializer raised {type(e).__name__}: {e} on bytes a fresh one decodes")
    if back2.instructions != sub.instructions or back2.app_id != j["app_id"]:
        raise Failure("roundtrip:reused-deserializer", case, "a reused Deserializer decodes the same bytes differently from a fresh one")
    # ... and what it returned stays what it was when the same object decodes something else afterwards
    _persistent_deserializer(fname).deserialize_subroutine(_other_bytes())
    if back2.instructions != sub.instructions or back2.app_id != j["app_id"]:
        raise Failure("roundtrip:earlier-result-changed", case, f"the subroutine a reused Deserializer returned changed when it decoded another one: now {[str(i) for i in back2.instructions][:4]}")
    # in-place edits of the instruction list must show up in the next encoding
    if sub.instructions:
        import copy as _copy

        sub.instructions.append(_copy.deepcopy(sub.instructions[0]))
        try:
            again = deserialize(bytes(sub), flavour=_flav(fname))
        except Exception as e:
            raise Failure("roundtrip:reserialise-raises:append", case, f"re-serialising after instructions.append raised {type(e).__name__}: {e}")
        if again.instructions != sub.instructions:
            raise Failure("roundtrip:stale-after-append", case, f"after appending an instruction in place the encoded bytes decode to {len(again.instructions)} instructions instead of {len(sub.instructions)}")
        sub.instructions.pop()
    # the same object serialised again after it was given to another application (instantiate / app_id setter):
    # the bytes must follow the object's current state, not an earlier serialisation
    for how, new_id in (("instantiate", (j["app_id"] * 7 + 1) % 65536), ("setter", (j["app_id"] * 7 + 2) % 65536), ("instantiate", 0), ("setter", 0)):
        try:
            if how == "instantiate":
                sub.instantiate(new_id, {})
            else:
                sub.app_id = new_id
            again = deserialize(bytes(sub), flavour=_flav(fname))
        except Exception as e:
            raise Failure(f"roundtrip:reserialise-raises:{how}", case, f"re-serialising after {how} raised {type(e).__name__}: {e}")
        if again.app_id != new_id or again.instructions != sub.instructions or tuple(again.netqasm_version) != tuple(j["version"]):
            raise Failure(f"roundtrip:stale-after-{how}", case, f"after {how} to application {new_id} the encoded bytes decode with app id {again.app_id}, version {again.netqasm_version}")


@functools.lru_cache(maxsize=None)
def _other_bytes() -> bytes:
    """some other subroutine (two core instructions, valid in every flavour)"""
    return bytes(g.build_subroutine({"flavour": "vanilla", "app_id": 9, "version": [0, 10], "instrs": [["SetInstruction", "set", ["R1", 5]], ["SetInstruction", "set", ["R2", 6]]]}))


@functools.lru_cache(maxsize=None)
def _persistent_deserializer(fname):
    from netqasm.lang.parsing.binary import Deserializer

    return Deserializer(_flav(fname))


def check_bytes(fname: str, raw: bytes) -> bool:
    """returns True if the bytes decoded"""
    from netqasm.lang.parsing import deserialize

    case = {"kind": "bytes", "flavour": fname, "hex": raw.hex()}
    try:
        p1 = _persistent_deserializer(fname).deserialize_subroutine(raw)  # may raise: truncated / unknown opcode inputs are fine
    except Exception:
        p1 = None
    try:
        f1 = deserialize(raw, flavour=_flav(fname))
    except Exception:
        f1 = None
    if (p1 is None) != (f1 is None) or (p1 is not None and (p1.instructions != f1.instructions or p1.app_id != f1.app_id)):
        raise Failure("bytes:reused-deserializer", case, "a long-lived Deserializer object and a fresh one disagree on these bytes (its behaviour depends on what it decoded before)")
    try:
        s1 = deserialize(raw, flavour=_flav(fname))
    except Exception:
        return False  # rejected: fine
    try:
        raw2 = bytes(s1)
        s2 = deserialize(raw2, flavour=_flav(fname))
    except Exception as e:
        raise Failure("bytes:reencode-raises", case, f"decoded program cannot be re-encoded/decoded: {type(e).__name__}: {e}")
    if s1.instructions != s2.instructions or s1.app_id != s2.app_id or tuple(s1.netqasm_version) != tuple(s2.netqasm_version):
        raise Failure("bytes:not-fixed-point", case, "decode(encode(decode(b))) != decode(b)")
    if [type(i) for i in s1.instructions] != [type(i) for i in s2.instructions]:
        raise Failure("bytes:class-changed", case, "instruction classes changed across re-encoding")
    return True


def st_bytes(fname: str):
    opcodes = sorted({c.id for c in g.flavour_classes(fname)})
    cmd = st.tuples(st.sampled_from(opcodes), st.binary(min_size=6, max_size=6)).map(lambda t: bytes([t[0]]) + t[1])
    # favour commands whose register bytes are valid (top two bits clear)
    cmd2 = st.tuples(st.sampled_from(opcodes), st.lists(st.integers(0, 63), min_size=6, max_size=6)).map(
        lambda t: bytes([t[0]] + t[1])
    )
    good = st.tuples(st.binary(min_size=4, max_size=4), st.lists(cmd | cmd2, min_size=1, max_size=6)).map(lambda t: t[0] + b"".join(t[1]))
    # invalid inputs (truncated, unknown opcode) are rejected; they must not disturb later decoding
    bad = st.one_of(
        good.map(lambda b: b[:-3]),
        st.tuples(st.binary(min_size=4, max_size=4), st.binary(min_size=7, max_size=7)).map(lambda t: t[0] + b"\xee" + t[1][1:]),
        # decodable commands first, then one with an unknown opcode (the decoder gives up part-way)
        st.tuples(good, st.binary(min_size=6, max_size=6), st.sampled_from([0xEE, 0xFF, 0x7F])).map(lambda t: t[0] + bytes([t[2]]) + t[1]),
        st.tuples(good, st.binary(min_size=6, max_size=6), good).map(lambda t: t[0] + b"\xee" + t[1] + t[2][4:]),
    )
    return st.one_of(good, good, bad)


def check_same_bytes_across_flavours(ctx: Ctx) -> int:
    """the same 7 bytes are different instructions in different flavours: decode equal byte strings under alternating
    flavours (fresh helper and long-lived decoder objects), in both orders"""
    from checks.c02 import _ZERO
    from netqasm.lang.parsing import deserialize
    from netqasm.lang.subroutine import Subroutine
    from vlib import refenc

    items = []
    for fname in g.FLAVOURS:
        for cls in g.flavour_classes(fname):
            op = refenc.TABLE[fname].get(cls.mnemonic)
            if op is None:
                continue
            items.append((op[0] if isinstance(op, (tuple, list)) else op, fname, cls))
    n = 0
    fl = list(g.FLAVOURS)
    for order in (sorted(items, key=lambda t: (t[0], fl.index(t[1]))), sorted(items, key=lambda t: (t[0], -fl.index(t[1])))):
        for _rep in range(2):
            for _op, fname, cls in order:
                vals = [copy.deepcopy(_ZERO[k]) for _n, k in g.shape_of(cls)]
                instr = g.build(cls, vals)
                case = {"kind": "same-bytes", "flavour": fname, "cls": cls.__name__, "vals": vals}
                n += 1

                def one():
                    raw = bytes(Subroutine(instructions=[instr], netqasm_version=(0, 0), app_id=0))
                    for how, back in (("fresh", deserialize(raw, flavour=g.FLAVOURS[fname]())), ("long-lived", _persistent_deserializer(fname).deserialize_subroutine(raw))):
                        got = back.instructions
                        if len(got) != 1 or type(got[0]) is not cls or got[0] != instr:
                            raise Failure(f"roundtrip:cross-flavour:{fname}:{cls.mnemonic}", case, f"{instr} of flavour {fname} decoded ({how} decoder, after the same bytes were decoded under another flavour) as {[type(i).__module__.split('.')[-1] + '.' + type(i).__name__ for i in got]}")

                ctx.attempt(case, one)
    return n


def shard(ctx: Ctx) -> None:
    stt = ctx.stats
    if ctx.shard == 0:
        check_tables(ctx)
        stt.exhaustive_domains["every class with all-zero operands, decoded in opcode order across flavours (both orders)"] = check_same_bytes_across_flavours(ctx)
        from checks.c02 import all_distinct

        for fname in g.FLAVOURS:
            base = [[cls.__name__, cls.mnemonic, all_distinct(g.shape_of(cls))] for cls in g.flavour_classes(fname)]
            for n_long in (1001, 4100):
                j_long = {"flavour": fname, "app_id": 3, "version": [0, 10], "instrs": (base * (n_long // len(base) + 1))[:n_long]}
                ctx.attempt({"kind": "sub", **j_long}, check_roundtrip, j_long)
                stt.case(["long", fname, n_long], True, [f"flavour:{fname}", "len>1000"])
    n_sub = 1500 if ctx.tier == "quick" else 20000
    n_bytes = 600 if ctx.tier == "quick" else 6000
    for fi, fname in enumerate(g.FLAVOURS):

        def body(j):
            shapes = set()
            bnd = False
            for cname, _m, vals in j["instrs"]:
                cls = g.class_by_name(j["flavour"], cname)
                sh = g.shape_of(cls)
                shapes.add(tuple(k for _n, k in sh))
                bnd = bnd or any(g.boundary_hit(k, v) for (_n, k), v in zip(sh, vals))
            labels = [f"flavour:{j['flavour']}"] + (["boundary"] if bnd else []) + [f"len>{10 * (len(j['instrs']) // 10)}"]
            nt = len(shapes) >= 2 or bnd
            sample = None
            if nt and len(stt.samples) < stt.MAX_SAMPLES and len(j["instrs"]) <= 4:
                sample = j
            stt.case(j, nt, labels, sample=sample)
            check_roundtrip(j)

        ctx.search(g.st_subroutine(fname, 40), body, n_sub, name=f"c01-{fname}", salt=fi)

        def body_b(raw, fname=fname):
            ok = check_bytes(fname, raw)
            stt.case(raw, ok, ["bytes:decoded" if ok else "bytes:rejected"])

        ctx.search(st_bytes(fname), body_b, n_bytes, name=f"c01-bytes-{fname}", salt=10 + fi)

    if ctx.thorough():
        # every class x every register operand position x all 64 registers (sharded round-robin)
        n = 0
        k = 0
        for fname in g.FLAVOURS:
            for cls in g.flavour_classes(fname):
                shape = g.shape_of(cls)
                from checks.c02 import _ZERO

                for pos, (_n, kind) in enumerate(shape):
                    subpos = {"reg": [None], "entry": ["idx"], "slice": ["start", "stop"]}.get(kind)
                    if not subpos:
                        continue
                    for sp in subpos:
                        k += 1
                        if k % ctx.nshards != ctx.shard:
                            continue
                        for bank in "RCQM":
                            for idx in range(16):
                                vals = [(_ZERO[kk] if not isinstance(_ZERO[kk], dict) else dict(_ZERO[kk])) for _nn, kk in shape]
                                r = f"{bank}{idx}"
                                if sp is None:
                                    vals[pos] = r
                                else:
                                    vals[pos][sp] = r
                                j = {"flavour": fname, "app_id": 0, "version": [0, 0], "instrs": [[cls.__name__, cls.mnemonic, vals]]}
                                n += 1
                                stt.case(j, True, ["enum:register-position"])
                                try:
                                    check_roundtrip(j)
                                except Failure as f:
                                    ctx.fail(f)
        stt.exhaustive_domains["class x register position x 64 registers"] = n


def replay(case):
    try:
        if case["kind"] == "sub":
            check_roundtrip({k: case[k] for k in ("flavour", "app_id", "version", "instrs")})
        elif case["kind"] == "bytes":
            check_bytes(case["flavour"], bytes.fromhex(case["hex"]))
        elif case["kind"] == "table":
            c = Ctx("C01", "quick", 0, 0, 1, [])
            check_tables(c)
            for f in c.stats.failures:
                if f["case"].get("flavour") == case["flavour"] and f["case"].get("cls") == case["cls"]:
                    return Failure(f["signature"], f["case"], f["message"])
    except Failure as f:
        return f
    return None
