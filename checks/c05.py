"""C05 — SDK control flow and classical data flow compile to equivalent subroutines.

Two evaluators of the same host-program AST: the real SDK -> serialisation -> controller -> repo
Executor (trace subclass), and ordinary Python execution (vlib.hostprog.Direct).
"""
from __future__ import annotations

from typing import Any, Dict, List

from vlib import hostprog as hp
from vlib.runner import Ctx, Failure

LEVEL = "exploration"
RULE = (
    "Hypothesis-generated host programs over new_array(init)/new_register/Future.add (mod)/if_* (context and callback)/"
    "loop/loop_body/foreach/enumerate/loop_until(ValueAtMostConstraint, cleanup)/qubit gates/measure into array futures, "
    "loop-indexed futures, registers/flush at every top-level position; nesting <= 3 (quick) or 4, scripted measurement "
    "outcomes.  Non-trivial = executes a conditional both ways or a loop with >=2 iterations, and has >=1 flush "
    "separating a definition from a later use (>=2 flushes); distinct by AST hash.  After every flush each kept Future/RegFuture "
    "handle is read on the host through a generated form (int(), ==/!=, +/-, bool/if, comparisons, hash/dict key, */neg/abs/%, "
    "str, a fresh handle, .value) before its .value is touched; labels hostread:* count the forms and the reads of a handle "
    "whose entry changed since the host last read it"
)
ASSUMPTIONS = [
    "controller = repo Executor + harness subclass supplying gate/measure callbacks; outcomes scripted identically on both sides",
    "loops: start<=stop, step>=1, (stop-start)%step==0; build-time allocations only at top level (DESIGN appendix A)",
    "shared memory = the repo's in-process SharedMemory object (ret_arr shares the controller's list, as the Executor does)",
]
SHARDS = {"quick": 4, "thorough": 16}

KF_REG = "regfuture-across-flush"

# How the host reads a kept handle after a flush ("When the value property has a concrete value, the Future behaves
# like an int"): each form is tried BEFORE the handle's `.value` is touched in that flush, because `.value`/`str()`
# may refresh what the handle has cached.  The expected results are computed from the direct evaluator's value only.
READ_FORMS = ["value", "str", "int", "eq", "add", "bool", "cmp", "hash", "mulneg", "fresh"]
_OP_FORMS = frozenset(READ_FORMS) - {"value", "str", "fresh"}


def host_read(form: str, h: Any, want: int, fresh=None) -> str:
    """Read handle `h` on the host through `form`; returns '' or a description of the disagreement with `want`."""
    if form == "int":
        got = [int(h)]
        exp = [want]
    elif form == "eq":
        got = [h == want, h != want, h == want + 1, h != want - 1]
        exp = [True, False, False, True]
    elif form == "add":
        got = [h + 0, 1 + h, h - 1]
        exp = [want, want + 1, want - 1]
    elif form == "bool":
        got = [bool(h), (1 if h else 0)]
        exp = [want != 0, (1 if want != 0 else 0)]
    elif form == "cmp":
        got = [h <= want, h >= want, h < want, h > want, h < want + 1, h > want - 1]
        exp = [True, True, False, False, True, True]
    elif form == "hash":
        got = [hash(h), {want: "hit"}.get(h, "miss")]
        exp = [hash(want), "hit"]
    elif form == "mulneg":
        got = [h * 1, -h, abs(h), h % 7, h // 1]
        exp = [want, -want, abs(want), want % 7, want]
    elif form == "str":
        got = [str(h)]
        exp = [str(want)]
    elif form == "fresh":
        got = [int(fresh())]
        exp = [want]
    else:
        return ""
    if got != exp or [type(g) for g in got] != [type(e) for e in exp]:
        return f"{form}: host gets {got}, the controller's value {want} requires {exp}"
    return ""


def gen_opts(ctx_or_open, tier="quick"):
    open_keys = ctx_or_open
    return {
        "max_depth": 3 if tier == "quick" else 4,
        "max_stmts": 24 if tier == "quick" else 40,
        "max_top": 8 if tier == "quick" else 12,
        "qubits": 3,
        "regs_cross_flush": KF_REG not in open_keys,
    }


def norm_ctrl_events(evs: List[Any]) -> List[Any]:
    out = []
    i = 0
    while i < len(evs):
        e = evs[i]
        if e[0] == "qalloc" and i + 1 < len(evs) and evs[i + 1] == ("init", e[1]):
            out.append(("new", e[1]))
            i += 2
            continue
        if e[0] == "qfree":
            out.append(("free", e[1]))
        else:
            out.append(tuple(e))
        i += 1
    return out


def match_events(direct: List[Any], ctrl: List[Any], binding: Dict[int, int]) -> str:
    """lock-step comparison; `binding` (handle -> virtual id) persists across flushes. Returns '' or a message."""
    if len(direct) != len(ctrl):
        n = min(len(direct), len(ctrl))
    else:
        n = len(direct)
    for k in range(n):
        d, c = direct[k], ctrl[k]
        if d[0] != c[0]:
            return f"event {k}: direct {d} vs controller {c}"
        if d[0] == "new":
            if c[1] in binding.values():
                return f"event {k}: controller allocates virtual qubit {c[1]} which still holds a live qubit"
            binding[d[1]] = c[1]
        elif d[0] == "free":
            if binding.get(d[1]) != c[1]:
                return f"event {k}: direct frees handle {d[1]} (virtual {binding.get(d[1])}) but controller frees virtual {c[1]}"
            del binding[d[1]]
        elif d[0] == "meas":
            if binding.get(d[1]) != c[1] or d[2] != c[2]:
                return f"event {k}: direct {d} (virtual {binding.get(d[1])}) vs controller {c}"
        elif d[0].startswith("rot_"):
            if binding.get(d[1]) != c[1] or tuple(d[2:]) != tuple(c[2:]):
                return f"event {k}: direct {d} (virtual {binding.get(d[1])}) vs controller {c}"
        else:
            want = tuple(binding.get(h) for h in d[1:])
            if want != tuple(c[1:]):
                return f"event {k}: direct {d} (virtual {want}) vs controller {c}"
    if len(direct) != len(ctrl):
        return f"{len(direct)} direct events vs {len(ctrl)} controller events; first extra: {(direct[n:] or ctrl[n:])[0]}"
    return ""


def check(prog, open_keys=()) -> Dict[str, Any]:
    from vlib import sim

    try:
        dres = hp.run_direct(prog, prog["outcomes"])
    except hp.OutOfDomainProgram as e:
        raise
    ctrl, conn = sim.fresh(sim.TraceExecutor, max_qubits=5)
    ex = ctrl._executor
    ex.outcomes = list(prog["outcomes"])
    ex.step_bound = 200000
    app = conn.app_id
    binding: Dict[int, int] = {}
    state = {"ev_pos": 0}
    case = prog
    reads = list(prog.get("host_reads") or ["value"])
    last_seen: Dict[int, Any] = {}  # id(handle) -> value it had when the host last read it
    rinfo = {"forms": set(), "op_after_change": 0, "op_reads": 0}

    def on_flush(k):
        snap = dres.snapshots[k]
        evs = norm_ctrl_events(ex.events[state["ev_pos"] :])
        state["ev_pos"] = len(ex.events)
        msg = match_events(snap["events"], evs, binding)
        if msg:
            raise Failure("events", case, f"flush {k}: controller trace differs from direct execution: {msg}")
        # controller arrays
        for aid, want in snap["arrays"].items():
            h = run.arrays.get(aid)
            if h is None:
                continue
            got = ex._app_arrays[app]._arrays.get(h.address)
            if got is None or list(got) != list(want):
                raise Failure("ctrl-array", case, f"flush {k}: controller array @{h.address} (program array {aid}) is {got}, direct execution gives {want}")
            host = [h[i] for i in range(len(want))]
            if host != list(want):
                raise Failure("host-array", case, f"flush {k}: host reads array {aid} as {host}, controller/direct value {want}")
        # kept Future handles
        for j, (ref, f) in enumerate(run.futures):
            a, i = ref[1], ref[2]
            if a not in snap["arrays"]:
                continue
            want = snap["arrays"][a][i]
            form = reads[(k + j) % len(reads)]
            if want is not None and form != "value":
                # the handle used as an int, before anything else touches it in this flush
                try:
                    bad = host_read(form, f, want, fresh=lambda: run.arrays[a].get_future_index(i))
                except Exception as e:
                    raise Failure("host-future-op-raises", case, f"flush {k}: Future for array {a}[{i}] holding {want}, read as {form}, raised {type(e).__name__}: {e}")
                if bad:
                    was = last_seen.get(id(f), "never read")
                    raise Failure("host-future-op", case, f"flush {k}: Future handle for array {a}[{i}] (value at its previous host read: {was}) used as an int: {bad}")
                rinfo["forms"].add(form)
                if form in _OP_FORMS:
                    rinfo["op_reads"] += 1
                    if id(f) in last_seen and last_seen[id(f)] is not None and last_seen[id(f)] != want:
                        rinfo["op_after_change"] += 1
            last_seen[id(f)] = want
            try:
                got = f.value
            except Exception as e:
                raise Failure("host-future-raises", case, f"flush {k}: Future for array {a}[{i}] raised {type(e).__name__}: {e}")
            if got != want:
                raise Failure("host-future", case, f"flush {k}: Future handle for array {a}[{i}] reads {got}, controller/direct value {want}")
        # registers
        for j, (rid, h) in enumerate(run.regs.items()):
            want = snap["regs"].get(rid)
            if rid in seg_regs:
                got = ex._get_register(app, h.reg)
                if got != want:
                    raise Failure("ctrl-register", case, f"flush {k}: controller register {h.reg} (RegFuture {rid}) is {got}, direct execution gives {want}")
            form = reads[(k + j) % len(reads)]
            if want is not None and form in _OP_FORMS:
                try:
                    bad = host_read(form, h, want)
                except Exception as e:
                    raise Failure("host-register-op-raises", case, f"flush {k}: RegFuture {rid} ({h.reg}) holding {want}, read as {form}, raised {type(e).__name__}: {e}")
                if bad:
                    raise Failure("host-register-op", case, f"flush {k}: RegFuture {rid} ({h.reg}) used as an int: {bad}")
                rinfo["forms"].add("reg-" + form)
            hv = h.value
            if hv != want:
                raise Failure("host-register", case, f"flush {k}: RegFuture {rid} ({h.reg}) reads {hv} on the host, direct execution gives {want}")
        seg_regs.clear()

    seg_regs: set = set()

    class Run(hp.SdkRun):
        def run_stmt(self, s):
            if s[0] == "newreg":
                seg_regs.add(s[1])
            if s[0] == "meas" and s[2][0] == "newregm":
                seg_regs.add(s[2][1])
            if s[0] == "add" and isinstance(s[1], list) and s[1][0] == "reg":
                seg_regs.add(s[1][1])
            super().run_stmt(s)

    run = Run(conn, on_flush)
    run.reuse_handles = bool(prog.get("reuse_handles"))
    try:
        run.run_block(prog["stmts"])
    except Failure:
        raise
    except sim.StepBound:
        raise Failure("ctrl-nontermination", case, "controller exceeded the step bound")
    except Exception as e:
        import traceback

        tb = traceback.extract_tb(e.__traceback__)
        where = next((f"{fr.filename.split('/')[-1]}:{fr.name}" for fr in reversed(tb) if "/netqasm/" in fr.filename), "?")
        msg = str(e).split("\n")[0][:200]
        if "could not find an available" in msg or "Ran out of M-registers" in msg:
            raise Failure("register-exhaustion", case, f"{type(e).__name__}: {msg}")
        kind = "ctrl-fault" if msg.startswith("At line") else "sdk-raises"
        raise Failure(f"{kind}:{type(e).__name__}:{where}", case, f"in-domain program: {type(e).__name__}: {msg}")
    if run.n_flush != len(dres.snapshots):
        raise Failure("flush-count", case, "flush count differs")
    info = dict(dres.info)
    info["host_read_forms"] = sorted(rinfo["forms"])
    info["op_reads"] = rinfo["op_reads"]
    info["op_after_change"] = rinfo["op_after_change"]
    return info


def st_case(opts):
    """a host program plus the way the host reads its kept handles after each flush (cycled over flushes x handles)"""
    from hypothesis import strategies as st

    @st.composite
    def build(draw):
        prog = dict(draw(hp.st_program(opts)))
        prog["host_reads"] = draw(st.lists(st.sampled_from(READ_FORMS), min_size=1, max_size=4))
        return prog

    return build()


def shard(ctx: Ctx) -> None:
    stt = ctx.stats
    n = 900 if ctx.tier == "quick" else 8000
    opts = gen_opts(ctx.open_findings, ctx.tier)
    if not opts["regs_cross_flush"]:
        stt.notes.append("open finding regfuture-across-flush: RegFutures are only used/read in the flush segment that defines them (excluded by construction)")

    def body(prog):
        try:
            info = check(prog, ctx.open_findings)
        except hp.OutOfDomainProgram as e:
            stt.rejected["out-of-domain:" + str(e)] += 1
            stt.evaluations += 1
            return
        both = info["taken"] >= 1 and info["not_taken"] >= 1
        nt = (both or info["max_iters"] >= 2) and info["flushes"] >= 2
        labels = sorted(info["constructs"]) + [f"depth:{info['depth']}", f"flushes:{min(info['flushes'], 4)}"]
        if info["until_early"]:
            labels.append("until:early-exit")
        if info["until_exhausted"]:
            labels.append("until:exhausted")
        if both:
            labels.append("branch-both-ways")
        if info["max_iters"] >= 2:
            labels.append("loop>=2")
        labels += ["hostread:" + f for f in info["host_read_forms"]]
        if info["op_after_change"]:
            labels.append("hostread:int-operator-on-handle-whose-entry-changed-since-last-read")
        stt.case(prog["stmts"], nt, labels, sample=prog if len(str(prog)) < 900 else None)

    ctx.search(st_case(opts), body, n, name="c05")


def replay(case):
    try:
        check(case)
    except hp.OutOfDomainProgram:
        return None
    except Failure as f:
        return f
    return None
